"""C09 -- the server answers every message, correctly framed, and never goes down.

Two ties to the code:

1. stream "server" (syntax: ocaml/drv_server.ml), run by the Rust harness: the framing functions
   of util/net.rs (send_udp_bytes_to, send_tcp_bytes, read_tcp_bytes) on the in-memory sockets of
   hook H3, and from_octets + make_response / make_format_error_response.
2. `extra`: the REAL `resolved` binary (release, guard off), started on free loopback ports with
   generated zone and hosts files, in authoritative-only mode and in recursive mode with no
   reachable upstream; generated messages are sent over UDP (several sockets, interleaved) and
   TCP (several connections at a time); the expected reply to each is computed by the extracted
   model (CFG / Q lines of the model driver) and compared; an independent python oracle
   evaluates the property text on the replies alone; a liveness probe follows every batch and
   the process must still be running at the end.
"""
import concurrent.futures
import ipaddress
import os
import select
import socket
import struct
import subprocess
import threading
import time

from . import core, msgtok, tok, wiregen, wireref

ID = "C09"
DRIVER = "server"
ML_EXTRA = ("vmsg.ml",)
COQ_TARGETS = ["Properties/C09.vo"]
THEOREMS = [
    "C09_reply_or_silence", "C09_udp_served_or_silence", "C09_tcp_served", "C09_fallback_encodes", "C09_reply_echo", "C09_formerr_on_garbage", "C09_notimp_on_opcode",
    "C09_refused_rules", "C09_ra_iff_recursion", "C09_sections_are_resolver_output",
    "C09_udp_512_tc_exact", "C09_tcp_prefix_exact", "C09_framing_never_panics",
    "C09_tcp_short_read", "C09_answers_on_chain_unless_referral", "C09_known_referral_witness",
    "C09_unserialisable_reply_servfail_witness",
    "C09_authoritative_only_never_recurses", "C09_owned_name_reply", "C09_nxdomain_only_from_auth_zone",
]
RULE = ("pure cases (harness): framing of byte strings of 0..70000 octets around the 12 / 512 / 65535 boundaries with every value "
        "of octet 2, TCP streams with every relation of announced and delivered length, decode + make_response; non-trivial = "
        "distinct case line of at least 2 octets.  Real binary: distinct (configuration, transport, octets) messages for which "
        "the observed outcome (reply or silence) was compared with the model's; non-trivial = distinct message of at least 2 octets")
ASSUMPTIONS = [
    "the resolver is abstract in the theorems (any function from (recursion flag, question) to a result); the executable "
    "instances are resolve_local (LocalModel) and, for recursive mode, resolve_recursive_dead: recursive.rs under the assumption "
    "that every upstream exchange fails and no time-out fires (checked against the real binary with an unreachable upstream port)",
    "forwarding mode and recursive mode with answering upstreams are not exercised against the real binary here (C07/C08 cover the resolver)",
    "a reply that cannot be serialised (RDATA or a section count above 65535, only reachable through configuration) is replaced by "
    "its SERVFAIL stand-in (same id / QR / opcode / RD / RA / questions, no records; /repo commit 35946be): the model says the same, "
    "C09_udp_served_or_silence / C09_tcp_served carry no premise about encode, and the stand-in is proved to serialise for every reply "
    "handle_raw_message builds (C09_fallback_encodes)",
    "read_tcp_bytes never reads past the announced length (BytesMut::with_capacity(expected) allocates exactly `expected`); D8",
    "the 512 / 12 / 0b10 / 0b11111101 / u16::MAX literals of util/net.rs are written into ServerModel.v by hand (checked by the UDPF/TCPF stream)",
    "zone files are produced from the zone operations by a trusted python renderer (one record per line, absolute names, explicit TTL and class)",
    "a message flagged as a response that does NOT parse is answered with FORMERR (the code's comment explains why this cannot loop); "
    "`no reply to a message flagged as a response` is read as: to a message that decodes and has QR=1 (DESIGN 5/C09)",
    "liveness (`does not crash and keeps serving`) is observed on the real binary after every batch, not proved",
    "TCP connections on which the CLIENT misbehaves (closes or resets without reading, or sends more octets than its length prefix "
    "announces, so that the server closes with unread input and the kernel resets the connection) may lose the reply or part of it "
    "(the payload is a second small write held back by Nagle): for these only a COMPLETE reply is checked; the server must stay up",
    "no wildcard NS records in the generated zones (RFC 4592 4.2 leaves them undefined; the code treats them as one more delegation, "
    "i.e. one more shape of the known referral finding)",
]
TRUSTED = ["independent reference decoder vlib/wireref.py (oracle only)",
           "python zone-file / hosts-file renderer and socket client in vlib/p_c09.py"]

KNOWN_REFERRAL = "referral-in-answer-with-aa"
# fixed finding (35946be): kept as an ordinary failure class -- it must never fire again (regression detector)
KNOWN_UNSERIALISABLE = "unserialisable-reply-silence"
UNSER_NAME = "unser.example.com."          # holds a TXT record of 70000 octets: its reply cannot be serialised
UNSER_PREFIX = "unserialisable:"           # model driver: a reply was built, to_octets fails, its SERVFAIL stand-in follows


def model_reply(model_out):
    """the model's `Q` result without the unserialisable label: "none" | hex | Panic ..."""
    if isinstance(model_out, str) and model_out.startswith(UNSER_PREFIX):
        return model_out[len(UNSER_PREFIX):]
    return model_out


def model_silent(model_out):
    return model_reply(model_out) in (None, "none")

QUICK_PURE = 1500
THOROUGH_PURE = 30000


def hexb(b):
    b = bytes(b)
    return b.hex() if b else "-"


def unhex(h):
    return b"" if h == "-" else bytes.fromhex(h)


# ----------------------------------------------------------------------------
# 1. pure-function stream
# ----------------------------------------------------------------------------

def simple_query(name="www.example.com.", qtype=tok.A, qclass=1, ident=0x1234, rd=1, opcode=0, qr=0, aa=0, tc=0, ra=0,
                 rcode=0, nq=1, z=0):
    q = (msgtok.name(name), qtype, qclass)
    m = ((ident, qr, opcode, aa, tc, rd, ra, rcode), (q,) * nq, (), (), ())
    return wiregen.encode(m, mode="whole", z=z)


CORPUS = os.path.join(core.VERIF, "corpus", "C09", "regressions.txt")


def generate(rng, tier):
    n = QUICK_PURE if tier == "quick" else THOROUGH_PURE
    cases = []
    if os.path.exists(CORPUS):
        with open(CORPUS) as f:
            cases += [l.strip() for l in f if l.startswith("server ")]
    base = simple_query()
    # framing: lengths around every boundary, every value of octet 2 at a few lengths
    udp_lens = [0, 1, 2, 3, 11, 12, 13, 33, 511, 512, 513, 514, 600, 1024, 5000]
    for ln in udp_lens:
        b = (base + bytes(rng.randrange(256) for _ in range(max(0, ln - len(base)))))[:ln]
        cases.append("server UDPF " + hexb(b))
    for ln in (12, 512, 513):
        for v in range(256):
            b = bytearray((base + bytes(ln))[:ln])
            b[2] = v
            cases.append("server UDPF " + hexb(b))
    tcp_lens = [0, 1, 11, 12, 13, 512, 513, 65534, 65535, 65536, 65537, 70000]
    for ln in tcp_lens:
        b = (base + bytes(rng.randrange(256) for _ in range(min(64, max(0, ln - len(base))))) + bytes(max(0, ln)))[:ln]
        cases.append("server TCPF " + hexb(b))
    for ln in (12, 65536):
        for v in (0, 1, 2, 3, 0x80, 0x85, 0xFD, 0xFF):
            b = bytearray((base + bytes(ln))[:ln])
            b[2] = v
            cases.append("server TCPF " + hexb(b))
    # read_tcp_bytes: announced length d, delivered a
    for d in (0, 1, 2, 3, 12, len(base), 100, 513, 65535):
        for a in sorted({0, 1, 2, 3, max(0, d - 1), d, d + 1, d + 7}):
            payload = (base + bytes(rng.randrange(256) for _ in range(max(0, a - len(base)))))[:a]
            for e in ("eof", "open"):
                cases.append("server TCPR %s %s" % (e, hexb(struct.pack(">H", d) + payload)))
    for e in ("eof", "open"):
        cases.append("server TCPR %s -" % e)
        cases.append("server TCPR %s 00" % e)
        cases.append("server TCPR %s ff" % e)
    # decode + make_response / make_format_error_response
    for hm in wiregen.header_sweep_messages(tier)[:600 if tier == "quick" else 100000]:
        cases.append("server RESP " + hexb(wiregen.encode(hm, mode="whole")))
    for b in wiregen.truncations(base):
        cases.append("server RESP " + hexb(b))
    while len(cases) < n:
        r = rng.random()
        if r < 0.35:
            m = wiregen.gen_message(rng)
            b = wiregen.encode(m, mode=rng.choice(wiregen.MODES), rng=rng, mixcase=rng.random() < 0.3)
            if len(b) > 4000:
                continue
            cases.append("server RESP " + hexb(b))
        elif r < 0.55:
            m = wiregen.gen_message(rng)
            b = wiregen.encode(m, mode="whole")
            if len(b) > 4000:
                continue
            cases.append("server RESP " + hexb(wiregen.mutate(rng, b)))
        elif r < 0.65:
            cases.append("server RESP " + hexb(wiregen.random_bytes(rng)[:600]))
        elif r < 0.8:
            ln = rng.choice([12, 13, 100, 500, 511, 512, 513, 520, 700])
            cases.append("server UDPF " + hexb(bytes(rng.randrange(256) for _ in range(ln))))
        elif r < 0.9:
            ln = rng.choice([12, 13, 100, 512, 513, 2000])
            cases.append("server TCPF " + hexb(bytes(rng.randrange(256) for _ in range(ln))))
        else:
            d = rng.choice([0, 1, 2, 5, 12, 40, 300])
            a = max(0, d + rng.choice([-3, -1, 0, 0, 1, 4]))
            cases.append("server TCPR %s %s" % (rng.choice(["eof", "eof", "open"]),
                                                 hexb(struct.pack(">H", d) + bytes(rng.randrange(256) for _ in range(a)))))
    return cases


def _same_but_tc(out, inp):
    """out equals inp except possibly for the TC bit of octet 2"""
    if len(out) != len(inp):
        return False
    if len(out) < 3:
        return out == inp
    return out[:2] == inp[:2] and out[3:] == inp[3:] and (out[2] & 0xFD) == (inp[2] & 0xFD)


def oracle(case, impl, model):
    """the property text on the implementation's output of a pure case"""
    t = case.split(" ")
    op = t[1]
    if op == "UDPF":
        inp = unhex(t[2])
        if len(inp) < 12:
            return None                       # not a complete message: outside the property (the encoder never produces it)
        if not impl.startswith("Ok:"):
            return ("udp-framing", "send_udp_bytes_to failed on a %d-octet message: %s" % (len(inp), core.trunc(impl, 60)))
        out = unhex(impl[3:])
        if len(out) > 512:
            return ("udp-over-512", "UDP datagram of %d octets" % len(out))
        cut = len(inp) > 512
        if bool(out[2] & 2) != cut:
            return ("udp-tc-wrong", "TC=%d but the message was %scut (%d octets)" % ((out[2] >> 1) & 1, "" if cut else "not ", len(inp)))
        if not _same_but_tc(out, inp[:512]):
            return ("udp-bytes-changed", "datagram differs from the first 512 octets of the message beyond the TC bit")
        return None
    if op == "TCPF":
        inp = unhex(t[2])
        if len(inp) < 12:
            return None
        if not impl.startswith("Ok:"):
            return ("tcp-framing", "send_tcp_bytes failed on a %d-octet message: %s" % (len(inp), core.trunc(impl, 60)))
        out = unhex(impl[3:])
        if len(out) < 2 or struct.unpack(">H", out[:2])[0] != len(out) - 2:
            return ("tcp-prefix-wrong", "length prefix does not equal the number of octets that follow")
        cut = len(inp) > 65535
        if bool(out[4] & 2) != cut:
            return ("tcp-tc-wrong", "TC=%d but the message was %scut (%d octets)" % ((out[4] >> 1) & 1, "" if cut else "not ", len(inp)))
        if not _same_but_tc(out[2:], inp[:65535]):
            return ("tcp-bytes-changed", "payload differs from the message beyond the TC bit")
        return None
    if op == "TCPR":
        stream = unhex(t[3])
        if impl.startswith("Ok:"):
            got = unhex(impl[3:])
            if len(stream) < 2 or got != stream[2:2 + struct.unpack(">H", stream[:2])[0]] or \
                    len(got) != struct.unpack(">H", stream[:2])[0]:
                return ("tcp-read-wrong", "read_tcp_bytes returned octets that are not the announced message")
        elif impl.startswith("TooShort:") or impl.startswith("IO:"):
            ident = impl.split(":")[1]
            have = stream[2:]
            want = str(struct.unpack(">H", have[:2])[0]) if len(have) >= 2 else "-"
            if ident != want:
                return ("tcp-error-id", "short read reports id %s, the delivered octets say %s" % (ident, want))
        return None
    if op == "RESP":
        inp = unhex(t[2])
        if impl == "none":
            if len(inp) >= 2:
                return ("no-formerr", "no FORMERR for a %d-octet unparseable message" % len(inp))
            return None
        if impl[:2] not in ("R:", "F:"):
            return None
        m = msgtok.parse_msg(impl[2:])
        h = m[0]
        if len(inp) < 2:
            return ("reply-without-id", "a reply was built for a message too short to hold an id")
        if h[0] != struct.unpack(">H", inp[:2])[0] or h[1] != 1:
            return ("reply-id-or-qr", "reply id %d / QR %d for request id %d" % (h[0], h[1], struct.unpack(">H", inp[:2])[0]))
        st, ref = wireref.decode(inp)
        if impl.startswith("F:"):
            if st == "ok":
                return ("formerr-for-wellformed", "FORMERR for a message the reference decoder accepts")
            if h[7] != 1:
                return ("formerr-rcode", "format-error reply with RCODE %d" % h[7])
        else:
            if st != "ok":
                return ("accepted-malformed", "a reply echoing a question was built for a message the reference decoder rejects: " + ref)
            if h[2] != ref[0][2] or h[5] != ref[0][5] or m[1] != ref[1]:
                return ("echo-wrong", "opcode / RD / questions not echoed")
        return None
    return None


def kind(case, model):
    t = case.split(" ")
    if t[1] in ("UDPF", "TCPF"):
        n = len(t[2]) // 2 if t[2] != "-" else 0
        lim = 512 if t[1] == "UDPF" else 65535
        return "%s:%s" % (t[1], "<12" if n < 12 else ("<=%d" % lim if n <= lim else ">%d" % lim))
    if t[1] == "TCPR":
        return "TCPR:%s:%s" % (t[2], model.split(":")[0])
    return "RESP:" + model[:1]


def nontrivial(case, model):
    t = case.split(" ")
    h = t[-1]
    return h != "-" and len(h) >= 4


# ----------------------------------------------------------------------------
# 2. the real binary
# ----------------------------------------------------------------------------

RELEASE_TARGET = os.path.join(core.BUILD, "target-release")


def server_binary_path():
    return os.path.join(RELEASE_TARGET, "release", "resolved")


def build_release_binaries():
    """cargo build --offline --release -p resolved in /repo, guard OFF, cached by cargo in
    build/target-release (a no-op when nothing changed)."""
    with core.Lock("cargo"):
        env = {"CARGO_TARGET_DIR": RELEASE_TARGET, "CARGO_NET_OFFLINE": "true", "RUSTFLAGS": ""}
        rc, out = core.sh(["cargo", "build", "--offline", "--release", "-p", "resolved"], cwd=core.REPO, env=env, timeout=3000)
        return rc == 0 and os.path.exists(server_binary_path()), out


# ---- configurations ---------------------------------------------------------
# record: (wild, owner dotted, type, ttl, rd) with rd = ("a", u32) | ("n", dotted) | ("x", pref, dotted)
#         | ("o", bytes) | ("q", bytes16) | ("v", prio, weight, port, dotted) | ("i", dotted, dotted)

def rd_tok(rd):
    k = rd[0]
    if k == "a":
        return tok.rd_a(rd[1])
    if k == "n":
        return tok.rd_name(tok.name(rd[1]))
    if k == "x":
        return tok.rd_mx(rd[1], tok.name(rd[2]))
    if k == "o":
        return tok.rd_octets(rd[1])
    if k == "q":
        return tok.rd_aaaa(rd[1])
    if k == "v":
        return tok.rd_srv(rd[1], rd[2], rd[3], tok.name(rd[4]))
    if k == "i":
        return tok.rd_minfo(tok.name(rd[1]), tok.name(rd[2]))
    raise ValueError(k)


def octets_text(b):
    out = ['"']
    for c in b:
        if 48 <= c <= 57 or 65 <= c <= 90 or 97 <= c <= 122:
            out.append(chr(c))
        else:
            out.append("\\%03d" % c)
    out.append('"')
    return "".join(out)


def rd_text(rd):
    k = rd[0]
    if k == "a":
        return str(ipaddress.IPv4Address(rd[1]))
    if k == "n":
        return rd[1]
    if k == "x":
        return "%d %s" % (rd[1], rd[2])
    if k == "o":
        return octets_text(rd[1])
    if k == "q":
        return str(ipaddress.IPv6Address(bytes(rd[1])))
    if k == "v":
        return "%d %d %d %s" % (rd[1], rd[2], rd[3], rd[4])
    if k == "i":
        return "%s %s" % (rd[1], rd[2])
    raise ValueError(k)


TYPE_MNEMONIC = {tok.A: "A", tok.NS: "NS", tok.CNAME: "CNAME", tok.PTR: "PTR", tok.HINFO: "HINFO", tok.MINFO: "MINFO",
                 tok.MX: "MX", tok.TXT: "TXT", tok.AAAA: "AAAA", tok.SRV: "SRV", tok.MB: "MB", tok.NULL: "NULL", tok.WKS: "WKS"}


def zone_text(z):
    lines = []
    if z["soa"] is not None:
        m, r, serial, refresh, retry, expire, minimum = z["soa"]
        lines.append("%s IN SOA %s %s %d %d %d %d %d" % (z["apex"], m, r, serial, refresh, retry, expire, minimum))
    for (w, o, t, ttl, rd) in z["ops"]:
        owner = ("*." + o if o != "." else "*") if w else o
        lines.append("%s %d IN %s %s" % (owner, ttl, TYPE_MNEMONIC[t], rd_text(rd)))
    return "\n".join(lines) + "\n"


def zone_token(z):
    """normal records first, then wildcard records: the order Zone::deserialise inserts them in"""
    ops = [x for x in z["ops"] if not x[0]] + [x for x in z["ops"] if x[0]]
    optok = "+".join(("W" if w else "I") + tok.rr(tok.name(o), t, ttl, rd_tok(rd)) for (w, o, t, ttl, rd) in ops) or "_"
    soa = "N" if z["soa"] is None else tok.rd_soa(tok.name(z["soa"][0]), tok.name(z["soa"][1]), *z["soa"][2:])
    return "%s~%s~%s" % (tok.name(z["apex"]), soa, optok)


def hosts_text(hosts):
    return "".join("%s %s\n" % (str(ipaddress.ip_address(a if isinstance(a, int) else bytes(a))), n[:-1]) for (a, n) in hosts)


def hosts_token(hosts):
    """From<Hosts> for Zone: last mapping per (name, family) wins; A / AAAA with TTL 5 at the root zone"""
    v4, v6 = {}, {}
    for (a, n) in hosts:
        if isinstance(a, int):
            v4[n] = a
        else:
            v6[n] = bytes(a)
    ops = [(False, n, tok.A, 5, ("a", a)) for n, a in v4.items()] + [(False, n, tok.AAAA, 5, ("q", a)) for n, a in v6.items()]
    return zone_token({"apex": ".", "soa": None, "ops": ops})


def soa_for(apex, minimum=300):
    return ("ns1." + apex, "admin." + apex, 2024, 3600, 600, 86400, minimum)


LOOP4 = 0x7F000000


def make_config(rng, mode, idx, with_huge):
    """a configuration exercising every branch of the local resolver as seen through the server"""
    lo = lambda k: LOOP4 + k                                      # 127.0.0.k: safe to contact in recursive mode
    addr = (lambda: lo(rng.randint(2, 250))) if mode == "R" else (lambda: rng.choice([lo(rng.randint(2, 250)), 0x01020304,
                                                                                      0xC0000201, rng.getrandbits(32)]))
    ex = []
    A, NS, CNAME, TXT, MX, AAAA, SRV, PTR, HINFO, MINFO = tok.A, tok.NS, tok.CNAME, tok.TXT, tok.MX, tok.AAAA, tok.SRV, tok.PTR, tok.HINFO, tok.MINFO
    ex += [(False, "example.com.", NS, 3600, ("n", "ns1.example.com.")), (False, "example.com.", NS, 3600, ("n", "ns2.example.com.")),
           (False, "ns1.example.com.", A, 300, ("a", lo(2))), (False, "ns2.example.com.", A, 300, ("a", lo(3))),
           (False, "example.com.", MX, 300, ("x", 10, "mail.example.com.")), (False, "mail.example.com.", A, 100, ("a", addr())),
           (False, "www.example.com.", A, 300, ("a", addr())), (False, "www.example.com.", A, 300, ("a", addr())),
           (False, "www.example.com.", AAAA, 300, ("q", bytes([0x20, 1, 0xd, 0xb8] + [0] * 11 + [1]))),
           (False, "www.example.com.", TXT, 7, ("o", b"v=1 hello")),
           (False, "alias.example.com.", CNAME, 300, ("n", "www.example.com.")),
           (False, "alias2.example.com.", CNAME, 300, ("n", "alias.example.com.")),
           (False, "loop1.example.com.", CNAME, 300, ("n", "loop2.example.com.")),
           (False, "loop2.example.com.", CNAME, 300, ("n", "loop1.example.com.")),
           (False, "dangling.example.com.", CNAME, 300, ("n", "nothere.example.com.")),
           (False, "out.example.com.", CNAME, 300, ("n", "www.other.test.")),
           (False, "away.example.com.", CNAME, 300, ("n", "host.elsewhere.invalid.")),
           (False, "tohosts.example.com.", CNAME, 300, ("n", "myhost.")),
           (False, "tosub.example.com.", CNAME, 300, ("n", "www.sub.example.com.")),
           # delegations (F12): with glue beneath the cut, and to an in-zone host
           (False, "sub.example.com.", NS, 300, ("n", "ns.sub.example.com.")), (False, "ns.sub.example.com.", A, 300, ("a", lo(4))),
           (False, "deleg2.example.com.", NS, 300, ("n", "ns1.example.com.")), (False, "deleg2.example.com.", NS, 300, ("n", "ns2.example.com.")),
           (True, "wild.example.com.", TXT, 300, ("o", b"wild")), (True, "wild.example.com.", A, 300, ("a", addr())),
           (False, "a.b.c.example.com.", A, 300, ("a", addr())),
           (False, "_sip._tcp.example.com.", SRV, 300, ("v", 1, 2, 5060, "www.example.com.")),
           (False, "hinfo.example.com.", HINFO, 300, ("o", b"\x03CPU\x02OS")),
           (False, "minfo.example.com.", MINFO, 300, ("i", "admin.example.com.", "errors.example.com.")),
           (False, "ptr.example.com.", PTR, 300, ("n", "www.example.com.")),
           (False, "lowttl.example.com.", A, 1, ("a", addr())),
           (False, ("l" * 63) + ".example.com.", A, 300, ("a", addr()))]
    # an answer of more than 512 octets (TC over UDP, whole over TCP)
    for i in range(8):
        ex.append((False, "big.example.com.", TXT, 300, ("o", bytes([97 + i]) * 90)))
    # fixed finding (35946be): RDATA longer than 65535 octets makes to_octets fail; SERVFAIL is sent in place of the reply
    ex.append((False, UNSER_NAME, TXT, 300, ("o", b"u" * 70000)))
    if with_huge:
        # an answer of more than 65535 octets (TC and cut over TCP as well)
        for i in range(5):
            ex.append((False, "huge.example.com.", TXT, 300, ("o", bytes([65 + i]) * 16000)))
    labels = ["a", "b", "c", "www", "x1"]
    for _ in range(rng.randint(4, 10)):
        owner = ".".join(rng.choice(labels) for _ in range(rng.randint(1, 3))) + ".rnd.example.com."
        t = rng.choice([A, A, TXT, MX, CNAME, NS, AAAA])
        rd = {A: lambda: ("a", addr()), TXT: lambda: ("o", bytes(rng.randrange(256) for _ in range(rng.choice([0, 1, 5, 40])))),
              MX: lambda: ("x", rng.choice([0, 5, 65535]), rng.choice(["mail.example.com.", "www.other.test."])),
              CNAME: lambda: ("n", rng.choice(["www.example.com.", "a.rnd.example.com.", "www.other.test.", "nothere.example.com."])),
              NS: lambda: ("n", rng.choice(["ns1.example.com.", "ns.sub.example.com."])),
              AAAA: lambda: ("q", bytes(rng.randrange(256) for _ in range(16)))}[t]()
        # no wildcard NS records (RFC 4592 4.2 leaves them undefined; the code reads them as a delegation of
        # <next label>.<closest encloser>, which would be one more shape of the known referral finding)
        ex.append((rng.random() < 0.15 and t != NS, owner, t, rng.choice([0, 1, 299, 300, 301, 86400]), rd))
    z_example = {"apex": "example.com.", "soa": soa_for("example.com.", 300), "ops": ex}
    z_other = {"apex": "other.test.", "soa": soa_for("other.test.", 60),
               "ops": [(False, "www.other.test.", A, 30, ("a", addr())), (False, "www.other.test.", TXT, 3000, ("o", b"other")),
                       (False, "back.other.test.", CNAME, 300, ("n", "alias.example.com.")),
                       (True, "other.test.", A, 300, ("a", addr()))]}
    # a zone file without SOA: non-authoritative records at the root apex (overrides / blocklists / hints)
    na = [(False, "override.example.net.", A, 600, ("a", addr())),
          (False, "cn.example.net.", CNAME, 600, ("n", "override.example.net.")),
          (False, "blocked.example.org.", A, 600, ("a", 0 if mode == "A" else lo(1)))]
    if idx % 2 == 1:
        # root hints: in recursive mode every miss now has candidate nameservers (that do not answer)
        na += [(False, ".", NS, 3600000, ("n", "a.root.invalid.")), (False, "a.root.invalid.", A, 3600000, ("a", lo(9)))]
    z_na = {"apex": ".", "soa": None, "ops": na}
    hosts = [(lo(10), "myhost."), (bytes([0] * 15 + [1]), "myhost."), (lo(11), "old.myhost."), (lo(12), "old.myhost."),
             (0 if mode == "A" else lo(1), "ads.example.org.")]
    zones = [z_example, z_other, z_na]
    if idx % 3 == 2:
        zones = [z_other, z_na, z_example]
    return {"mode": mode, "zones": zones, "hosts": hosts, "cache_size": rng.choice([0, 1, 512]),
            "protocol_mode": "only-v4" if mode == "R" else rng.choice(["only-v4", "prefer-v4", "prefer-v6", "only-v6"])}


def config_names(cfg):
    names = set()
    for z in cfg["zones"]:
        names.add(z["apex"])
        for (w, o, t, ttl, rd) in z["ops"]:
            names.add(o)
            if w:
                names.add("anything." + o if o != "." else "anything.")
                names.add("two.levels." + o if o != "." else "two.levels.")
            for x in rd[1:]:
                if isinstance(x, str):
                    names.add(x)
    for (_, n) in cfg["hosts"]:
        names.add(n)
    extra = set()
    for n in names:
        if n != ".":
            extra.add("sub-of." + n)
            extra.add(n.split(".", 1)[1] or ".")
    names |= extra
    names |= {".", "com.", "nothere.example.com.", "www.sub.example.com.", "deep.www.sub.example.com.", "x.deleg2.example.com.",
              "b.c.example.com.", "c.example.com.", "unknown.invalid.", "www.example.org."}
    return sorted(n for n in names if sum(len(l) + 1 for l in n.split(".")) <= 255 and all(len(l) <= 63 for l in n.split(".")))


def delegation_points(cfg):
    """owner names of non-wildcard NS records strictly below the apex of an authoritative zone"""
    pts = set()
    for z in cfg["zones"]:
        if z["soa"] is None:
            continue
        for (w, o, t, ttl, rd) in z["ops"]:
            if t == tok.NS and not w and o != z["apex"]:
                pts.add(msgtok.name(o))
    return pts


# ---- messages -----------------------------------------------------------------

class Msg:
    __slots__ = ("transport", "data", "tag", "chunks", "expected", "got", "note")

    def __init__(self, transport, data, tag, chunks=None):
        self.transport = transport      # "U" | "Te" (send, shut down writing, read) | "To" (stay open and silent, then close)
        #                                 | "Tc" (close at once without reading) | "Tr" (reset at once)
        self.data = bytes(data)         # the datagram / everything written on the TCP stream
        self.tag = tag
        self.chunks = chunks            # TCP: byte offsets at which the writes are split
        self.expected = None
        self.got = None
        self.note = None


def with_id(b, ident):
    return struct.pack(">H", ident & 0xFFFF) + b[2:] if len(b) >= 2 else b


def tcp_stream(payload, declared=None):
    return struct.pack(">H", len(payload) if declared is None else declared) + payload


REFERRAL_WITNESS = ("www.sub.example.com.", tok.A)


def gen_messages(rng, cfg, budget, big_ok):
    """-> list of Msg.  Deterministic witnesses first."""
    names = config_names(cfg)
    qtypes = list(tok.KNOWN_TYPES) + [252, 253, 254, 255]
    unknown_types = [0, 17, 18, 27, 29, 32, 34, 99, 251, 256, 32768, 65535]
    classes = [1, 255, 0, 2, 3, 4, 254, 256, 65535]
    out = []
    sweeps = []
    target = [out]

    def both(payload, tag, p_tcp=0.3):
        if len(payload) <= 512 and rng.random() >= p_tcp:
            target[0].append(Msg("U", payload, tag))
        else:
            target[0].append(Msg("Te", tcp_stream(payload), tag))

    # corpus / witnesses: the known finding F12, over both transports, RD on and off
    for rd in (0, 1):
        b = simple_query(REFERRAL_WITNESS[0], REFERRAL_WITNESS[1], rd=rd)
        out.append(Msg("U", b, "witness-referral"))
        out.append(Msg("Te", tcp_stream(b), "witness-referral"))
    # ... and the fixed finding "a reply that cannot be serialised is dropped": one UDP and one TCP probe, each of
    # which must get exactly one SERVFAIL reply with its id (35946be)
    b = simple_query(UNSER_NAME, tok.TXT, rd=0)
    out.append(Msg("U", b, "witness-unserialisable"))
    out.append(Msg("Te", tcp_stream(b), "witness-unserialisable"))
    # short datagrams
    for b in (b"", b"\x00", b"\xff", b"\x12\x34", b"\x00\x00", b"\x12\x34\x01", simple_query()[:11], simple_query()[:12]):
        out.append(Msg("U", b, "short"))
    # every prefix of a valid query
    base = simple_query("alias.example.com.", tok.A)
    for k in range(len(base) + 1):
        out.append(Msg("U", base[:k], "truncation"))
    # TCP: short reads (announced the whole query, delivered a prefix, then EOF), zero length, broken prefix
    for k in list(range(0, 6)) + [11, 12, 13, len(base) - 1]:
        out.append(Msg("Te", tcp_stream(base[:k], declared=len(base)), "tcp-short-read"))
    for s in (b"", b"\x00", b"\x00\x00", b"\x00\x01", b"\x00\x01\x07", b"\x00\x02\xab\xcd", b"\xff\xff" + base):
        out.append(Msg("Te", s, "tcp-prefix"))
    out.append(Msg("Te", tcp_stream(base) + b"trailing octets after the announced length", "tcp-trailing"))
    out.append(Msg("Te", tcp_stream(base, declared=len(base) - 3), "tcp-declared-less"))
    for k in (0, 1, 2, 3, 5, len(base) + 1):
        out.append(Msg("To", tcp_stream(base, declared=len(base))[:k] if k <= len(base) else tcp_stream(base, declared=len(base) + 9),
                       "tcp-open-silent"))
    out.append(Msg("To", tcp_stream(base), "tcp-open-complete"))
    out.append(Msg("To", tcp_stream(base) + b"more", "tcp-open-complete"))
    for k in (0, 1, 3, 6, len(base) + 2):
        out.append(Msg("Tc", tcp_stream(base, declared=len(base) + 5)[:k], "tcp-early-close"))
        out.append(Msg("Tr", tcp_stream(base, declared=len(base) + 5)[:k], "tcp-reset"))
    for cut in ([1], [2], [3], [2, 14], [1, 2, 3, 4, 5], [len(base)]):
        out.append(Msg("Te", tcp_stream(base), "tcp-chunked", chunks=cut))
    # big answers
    if big_ok:
        for nm in ("big.example.com.", "huge.example.com."):
            if nm == "huge.example.com." and not any(o == nm for z in cfg["zones"] for (_, o, _, _, _) in z["ops"]):
                continue
            for qt in (tok.TXT, tok.ANY):
                b = simple_query(nm, qt, rd=rng.randint(0, 1))
                out.append(Msg("U", b, "big-answer"))
                out.append(Msg("Te", tcp_stream(b), "big-answer"))
    # datagrams longer than the 512-octet receive buffer
    q = simple_query("www.example.com.", tok.A)
    out.append(Msg("U", q + bytes(600 - len(q)), "udp-over-512"))
    out.append(Msg("U", q + bytes(rng.randrange(256) for _ in range(513 - len(q))), "udp-over-512"))
    long_q = wiregen.encode(((7, 0, 0, 0, 0, 1, 0, 0), tuple((msgtok.name("q%d.%s.example.com." % (i, "y" * 50)), tok.A, 1) for i in range(8)),
                             (), (), ()), mode="none")
    out.append(Msg("U", long_q[:700], "udp-over-512"))
    out.append(Msg("Te", tcp_stream(long_q), "many-questions"))
    # the sweeps: thinned out (uniformly) when they exceed the budget of the tier
    target[0] = sweeps
    # header sweep: every flag combination x every opcode
    sweep = [(qr, aa, tc, rd, ra, op) for qr in (0, 1) for aa in (0, 1) for tc in (0, 1) for rd in (0, 1) for ra in (0, 1) for op in range(16)]
    rng.shuffle(sweep)
    for (qr, aa, tc, rd, ra, op) in sweep:
        b = simple_query(rng.choice(["www.example.com.", "alias.example.com.", "nothere.example.com.", "www.example.org."]),
                         rng.choice([tok.A, tok.A, tok.ANY, tok.MX]), qr=qr, aa=aa, tc=tc, rd=rd, ra=ra, opcode=op,
                         rcode=rng.choice([0, 0, 1, 3, 15]), z=rng.choice([0, 0, 1, 7]))
        both(b, "header-sweep", 0.2)
    # question counts 0..3, with known and unknown types / classes
    for nq in (0, 1, 2, 3):
        for qt, qc in ((tok.A, 1), (tok.ANY, 255), (99, 1), (tok.A, 3), (65535, 65535)):
            for op in (0, 2):
                both(simple_query("www.example.com.", qt, qc, nq=nq, rd=rng.randint(0, 1), opcode=op), "question-count")
    qs3 = ((msgtok.name("www.example.com."), tok.A, 1), (msgtok.name("mail.example.com."), 99, 1), (msgtok.name("."), tok.ANY, 4))
    both(wiregen.encode(((1, 0, 0, 0, 0, 1, 0, 0), qs3, (), (), ()), mode="whole"), "question-count")
    # all known and unknown types and classes
    for nm in ("www.example.com.", "example.com.", "alias.example.com.", "nothere.example.com.", "x.wild.example.com.",
               "www.sub.example.com.", "sub.example.com.", "myhost.", "override.example.net.", "unknown.invalid."):
        for qt in qtypes + unknown_types:
            both(simple_query(nm, qt, rd=rng.randint(0, 1)), "type-sweep", 0.15)
    for nm in ("www.example.com.", "nothere.example.com.", "unknown.invalid."):
        for qc in classes:
            for qt in (tok.A, tok.ANY, 99):
                both(simple_query(nm, qt, qc, rd=rng.randint(0, 1)), "class-sweep", 0.15)
    # every name of the configuration
    for nm in names:
        for qt in (tok.A, tok.ANY, tok.NS, tok.CNAME, tok.TXT, tok.SOA, tok.AAAA):
            if nm in ("big.example.com.", "huge.example.com.") and not big_ok:
                continue
            if nm == "huge.example.com." or (nm == UNSER_NAME and qt in (tok.ANY, tok.TXT)):
                continue
            both(simple_query(nm, qt, rd=rng.randint(0, 1)), "name-sweep", 0.25)
    target[0] = out
    room = max(300, budget - len(out) - max(60, budget // 8))
    if len(sweeps) > room:
        sweeps = rng.sample(sweeps, room)
    out.extend(sweeps)
    fixed = len(out)
    safe = [n for n in names if n not in ("huge.example.com.", "big.example.com.", UNSER_NAME)][:40]
    # the rest of the budget: random structured, mutated and random messages
    while len(out) < max(budget, fixed + 60):
        r = rng.random()
        if r < 0.22:
            nm = rng.choice(names)
            if nm in ("huge.example.com.", UNSER_NAME) or (nm == "big.example.com." and not big_ok):
                continue
            m = ((0, 0, 0, rng.randint(0, 1), 0, rng.randint(0, 1), rng.randint(0, 1), 0),
                 ((msgtok.name(nm), rng.choice(qtypes + unknown_types[:3]), rng.choice([1, 1, 1, 255, 3])),), (), (), ())
            both(wiregen.encode(m, mode="whole", rng=rng, mixcase=True), "mixed-case")
        elif r < 0.4:
            m = wiregen.gen_message(rng)
            h = list(m[0])
            h[1] = 0 if rng.random() < 0.7 else 1            # mostly queries, some responses
            if rng.random() < 0.6:
                h[2] = 0
            b = wiregen.encode((tuple(h),) + tuple(m[1:]), mode=rng.choice(wiregen.MODES), rng=rng, mixcase=rng.random() < 0.3)
            if len(b) > 60000:
                continue
            both(b, "structured-query" if h[1] == 0 else "response-flagged")
        elif r < 0.6:
            nm = rng.choice(names)
            if nm in ("huge.example.com.", "big.example.com.", UNSER_NAME):
                continue
            b = simple_query(nm, rng.choice(qtypes), rd=rng.randint(0, 1))
            both(wiregen.mutate(rng, b), "mutated")
        elif r < 0.72:
            b = wiregen.random_bytes(rng)
            both(b[:512] if rng.random() < 0.7 else b[:65535], "random-bytes")
        elif r < 0.8:
            n = rng.choice([0, 1, 2, 3, 11, 12, 13, 100, 511, 512])
            both(bytes(rng.randrange(256) for _ in range(n)), "random-bytes")
        elif r < 0.86:
            n = rng.choice([513, 1000, 4000, 16384, 40000, 65535])
            out.append(Msg("Te", tcp_stream(bytes(rng.randrange(256) for _ in range(n))), "random-bytes-tcp-large"))
        elif r < 0.93:
            b = simple_query(rng.choice(safe), rng.choice(qtypes), rd=rng.randint(0, 1))
            d = len(b) + rng.choice([-5, -1, 1, 2, 30])
            out.append(Msg("Te", tcp_stream(b, declared=max(0, d)), "tcp-declared-wrong"))
        else:
            b = simple_query(rng.choice(safe), rng.choice(qtypes), rd=rng.randint(0, 1))
            s = tcp_stream(b)
            cuts = sorted(rng.sample(range(1, len(s)), rng.randint(1, 3)))
            out.append(Msg("Te", s, "tcp-chunked", chunks=cuts))
    # shuffle everything but the witnesses so that kinds interleave
    head, tail = out[:6], out[6:]
    rng.shuffle(tail)
    return head + tail


# ---- running a server -----------------------------------------------------------

def free_port_pair():
    for _ in range(200):
        t = socket.socket(socket.AF_INET, socket.SOCK_STREAM)
        try:
            t.bind(("127.0.0.1", 0))
            port = t.getsockname()[1]
            u = socket.socket(socket.AF_INET, socket.SOCK_DGRAM)
            try:
                u.bind(("127.0.0.1", port))
            except OSError:
                continue
            finally:
                u.close()
            return port
        finally:
            t.close()
    raise RuntimeError("no free port")


class Server:
    def __init__(self, cfg, workdir):
        self.cfg = cfg
        os.makedirs(workdir, exist_ok=True)
        self.workdir = workdir
        args = []
        for i, z in enumerate(cfg["zones"]):
            p = os.path.join(workdir, "zone%d.zone" % i)
            with open(p, "w") as f:
                f.write(zone_text(z))
            args += ["-z", p]
        hp = os.path.join(workdir, "hosts")
        with open(hp, "w") as f:
            f.write(hosts_text(cfg["hosts"]))
        args += ["-a", hp]
        self.port = free_port_pair()
        self.metrics_port = free_port_pair()
        self.dead_port = free_port_pair()          # nothing listens there: every upstream exchange fails at once
        cmd = [server_binary_path(), "-i", "127.0.0.1:%d" % self.port, "--metrics-address", "127.0.0.1:%d" % self.metrics_port,
               "-s", str(cfg["cache_size"]), "--protocol-mode", cfg["protocol_mode"], "--upstream-dns-port", str(self.dead_port)]
        if cfg["mode"] == "A":
            cmd.append("--authoritative-only")
        self.cmd = cmd + args
        self.log = open(os.path.join(workdir, "server.log"), "w")
        env = {k: v for k, v in os.environ.items() if not k.startswith("RESOLVED_") and k != "RUST_LOG"}
        env["RUST_LOG"] = "warn"
        env["RUST_LOG_FORMAT"] = "no-ansi"
        self.proc = subprocess.Popen(self.cmd, stdout=self.log, stderr=subprocess.STDOUT, env=env)
        self.addr = ("127.0.0.1", self.port)

    def wait_ready(self, timeout=20.0):
        probe = simple_query("www.example.com.", tok.A, ident=0x7777)
        t0 = time.time()
        while time.time() - t0 < timeout:
            if self.proc.poll() is not None:
                return False
            s = socket.socket(socket.AF_INET, socket.SOCK_DGRAM)
            try:
                s.settimeout(0.1)
                s.sendto(probe, self.addr)
                r = s.recv(2048)
                if r[:2] == probe[:2]:
                    # the TCP listener is bound right after the UDP socket
                    try:
                        c = socket.create_connection(self.addr, timeout=0.5)
                        c.close()
                        return True
                    except OSError:
                        pass
            except OSError:
                pass
            finally:
                s.close()
            time.sleep(0.02)
        return False

    def alive(self):
        return self.proc.poll() is None

    def stop(self):
        rc = self.proc.poll()
        if rc is None:
            self.proc.terminate()
            try:
                self.proc.wait(timeout=5)
            except subprocess.TimeoutExpired:
                self.proc.kill()
        self.log.close()
        return rc


def tcp_exchange(addr, m, quiet_wait=0.25, timeout=20.0):
    """-> (octets received before the server closed, note)"""
    try:
        s = socket.create_connection(addr, timeout=timeout)
    except OSError as e:
        return None, "connect failed: %s" % e
    try:
        s.setsockopt(socket.IPPROTO_TCP, socket.TCP_NODELAY, 1)
        data = m.data
        cuts = [0] + [c for c in (m.chunks or []) if 0 < c < len(data)] + [len(data)]
        try:
            for a, b in zip(cuts, cuts[1:]):
                if b > a:
                    s.sendall(data[a:b])
                    if m.chunks:
                        time.sleep(0.003)
        except OSError:
            pass                              # the server closed while we were still writing (it had read all it wanted)
        if m.transport == "Tc":
            s.close()
            return b"", "closed without reading"
        if m.transport == "Tr":
            s.setsockopt(socket.SOL_SOCKET, socket.SO_LINGER, struct.pack("ii", 1, 0))
            s.close()
            return b"", "reset"
        if m.transport == "To":
            # the peer stays connected and silent: whatever the server sends within the wait (a complete
            # message is answered and the connection closed; an incomplete one must get nothing)
            wait = quiet_wait if model_silent(m.expected) else timeout
            s.settimeout(wait)
            out = bytearray()
            while True:
                try:
                    d = s.recv(1 << 17)
                except socket.timeout:
                    return bytes(out), "peer open: %d octets within %.0f ms, connection still open" % (len(out), wait * 1000)
                except OSError as e:
                    return bytes(out), "error: %s" % e
                if not d:
                    return bytes(out), "eof"
                out += d
        try:
            s.shutdown(socket.SHUT_WR)
        except OSError:
            pass                              # the server has answered and closed already
        out = bytearray()
        s.settimeout(timeout)
        while True:
            try:
                d = s.recv(1 << 17)
            except socket.timeout:
                return bytes(out), "timeout waiting for the server to close"
            except OSError as e:
                return bytes(out), "error: %s" % e
            if not d:
                return bytes(out), "eof"
            out += d
    finally:
        try:
            s.close()
        except OSError:
            pass


def udp_batch(addr, socks, batch, sentinel_payload, next_id, deadline=20.0, quiet=0.12):
    """send the batch round-robin over the sockets, then one sentinel query per socket; collect
    datagrams until every socket's sentinel reply and every reply the model predicts are in (the
    prediction is used for WAITING only -- a loaded machine may take long -- never for judging) and
    nothing more arrived for `quiet` seconds; give up after `deadline` seconds.
    -> (replies per message index: list of datagrams, sentinel ok per socket, stray datagrams)"""
    k = len(socks)
    by_key = {}
    for i, m in enumerate(batch):
        si = i % k
        if len(m.data) >= 2:
            by_key.setdefault((si, m.data[:2]), []).append(i)
        socks[si].sendto(m.data, addr)
        if i % 16 == 15:
            time.sleep(0.001)
    sent_ids = []
    for si in range(k):
        ident = next_id()
        sent_ids.append(struct.pack(">H", ident))
        socks[si].sendto(with_id(sentinel_payload, ident), addr)
    replies = [[] for _ in batch]
    sentinel = [None] * k
    stray = []
    t_end = time.time() + deadline
    last = time.time()
    awaited = {i for i, m in enumerate(batch) if not model_silent(m.expected) and len(m.data) >= 2}
    while True:
        now = time.time()
        if all(x is not None for x in sentinel) and not awaited and now - last >= quiet:
            break
        if now >= t_end:
            break
        r, _, _ = select.select(socks, [], [], 0.03)
        for s in r:
            si = socks.index(s)
            try:
                d = s.recv(70000)
            except OSError:
                continue
            last = time.time()
            if d[:2] == sent_ids[si] and sentinel[si] is None:
                sentinel[si] = d
                continue
            idxs = by_key.get((si, d[:2]))
            if idxs:
                # several messages of the batch cannot share (socket, id): ids are unique per batch
                replies[idxs[0]].append(d)
                awaited.discard(idxs[0])
            else:
                stray.append((si, d))
    return replies, sentinel, stray


# ---- the independent oracle on the implementation's replies -------------------------

KNOWN_QTYPES = set(tok.KNOWN_TYPES) | {252, 253, 254, 255}


def request_view(m):
    """what reached handle_raw_message, as far as the client can tell: (octets or None when the
    server is still waiting / nothing arrives, short_read)"""
    if m.transport == "U":
        return m.data[:512], False            # a longer datagram is cut by the 512-octet receive buffer
    s = m.data
    if len(s) < 2:
        return b"", False                     # no complete prefix: treated like an id-less message
    d = struct.unpack(">H", s[:2])[0]
    rest = s[2:]
    if len(rest) >= d:
        return rest[:d], False
    return rest, True                         # short read: FORMERR with the id if two octets arrived


def chain_names(qname, answers):
    names = {qname}
    for _ in range(len(answers) + 1):
        more = {r[4][1] for r in answers if r[1] == tok.CNAME and r[0] in names and r[4][0] == "n"}
        if more <= names:
            break
        names |= more
    return names


def is_proper_ancestor(anc, name):
    return len(anc) < len(name) and name[len(name) - len(anc):] == anc


def oracle_reply(cfg, m, replies, model_out=None):
    """replies: list of reply messages (UDP: datagrams; TCP: [payloads] after prefix check done by
    the caller).  -> None | (class, text).  model_out is consulted for ONE thing only: whether the
    model built a reply message whose encoding fails with CounterTooLarge.  For such a message (and,
    independently of the model, for the deterministic witness probes `unser.example.com TXT`) the
    expected reply is the SERVFAIL stand-in of commit 35946be: exactly one reply, same id, QR set,
    opcode / RD / question echoed, AA clear, RCODE 2, no records; a missing reply is a failure of class
    `unserialisable-reply-silence` (the fixed finding), any other deviation of `unserialisable-fallback-wrong`."""
    req, short = request_view(m)
    if m.transport in ("Tc", "Tr"):
        return None                           # the client did not listen
    if m.transport == "To" and (short or len(m.data) < 2):
        if replies:
            return ("reply-before-message-complete", "a reply was sent while the TCP peer had not finished its message")
        return None
    st, ref = wireref.decode(req) if not short else ("err", "short read")
    parseable = st == "ok"
    if len(req) < 2 or (parseable and ref[0][1] == 1):
        if replies:
            return ("reply-to-response-or-idless", "%d repl%s to a message that is %s" % (
                len(replies), "y" if len(replies) == 1 else "ies", "flagged as a response" if len(req) >= 2 else "too short to hold an id"))
        return None
    unser = (isinstance(model_out, str) and model_out.startswith(UNSER_PREFIX)) or m.tag == "witness-unserialisable"
    if not replies and unser:
        return (KNOWN_UNSERIALISABLE, "no reply at all to a %s message of %d octets (id %s): the reply cannot be serialised "
                "(RDATA or a section count above 65535) and was dropped instead of being answered with SERVFAIL"
                % ("parseable" if parseable else "unparseable", len(req), req[:2].hex()))
    if len(replies) != 1:
        return ("not-exactly-one-reply", "%d replies to a %s message of %d octets (id %s)" % (
            len(replies), "parseable" if parseable else "unparseable", len(req), req[:2].hex()))
    rep = replies[0]
    if len(rep) < 12:
        return ("reply-too-short", "reply of %d octets" % len(rep))
    if rep[:2] != req[:2] or not rep[2] & 0x80:
        return ("reply-id-or-qr", "reply id %s QR %d for request id %s" % (rep[:2].hex(), rep[2] >> 7, req[:2].hex()))
    tc = bool(rep[2] & 2)
    rcode = rep[3] & 15
    ra = rep[3] >> 7
    aa = (rep[2] >> 2) & 1
    rst, rmsg = wireref.decode(rep)
    # framing
    if m.transport == "U":
        if len(rep) > 512:
            return ("udp-over-512", "UDP reply of %d octets" % len(rep))
        if tc and len(rep) != 512:
            return ("udp-tc-not-cut", "TC set on a UDP reply of %d octets" % len(rep))
    else:
        if tc and len(rep) != 65535:
            return ("tcp-tc-not-cut", "TC set on a TCP reply of %d octets" % len(rep))
    if tc == (rst == "ok"):
        return ("tc-not-exact", "TC=%d but the reply %s" % (tc, "is a complete message" if rst == "ok" else "is incomplete: " + str(rmsg)))
    if not parseable:
        if rcode != 1:
            return ("no-formerr", "RCODE %d for an unparseable message (%s)" % (rcode, ref))
        return None
    qh = ref[0]
    if ((rep[2] >> 3) & 15) != qh[2] or (rep[2] & 1) != qh[5]:
        return ("echo-wrong", "opcode %d RD %d for a query with opcode %d RD %d" % ((rep[2] >> 3) & 15, rep[2] & 1, qh[2], qh[5]))
    if rst == "ok" and rmsg[1] != ref[1]:
        return ("question-not-echoed", "questions %s for query questions %s" % (rmsg[1], ref[1]))
    if qh[2] != 0:
        if rcode != 4:
            return ("no-notimp", "RCODE %d for opcode %d" % (rcode, qh[2]))
        return None
    # standard query
    if ra != (1 if cfg["mode"] == "R" else 0):
        return ("ra-wrong", "RA=%d in %s mode" % (ra, "recursive" if cfg["mode"] == "R" else "authoritative-only"))
    qs = ref[1]
    if unser:
        an, ns, ar = struct.unpack(">HHH", rep[6:12])
        if rcode != 2 or aa or tc or an or ns or ar or rst != "ok" or rmsg[1] != qs or len(qs) != 1:
            return ("unserialisable-fallback-wrong", "the reply standing in for one that cannot be serialised must be SERVFAIL with AA clear, "
                    "the question echoed and no records: RCODE %d AA %d TC %d counts %d/%d/%d, %s" % (
                        rcode, aa, int(tc), an, ns, ar, "questions %s" % (rmsg[1],) if rst == "ok" else "undecodable: %s" % (rmsg,)))
        return None
    must_refuse = len(qs) >= 2 or (len(qs) == 1 and (qs[0][1] not in KNOWN_QTYPES or qs[0][2] not in (1, 255)))
    if must_refuse:
        if rcode != 5:
            return ("no-refused", "RCODE %d for %d question(s) %s" % (rcode, len(qs), qs[:2]))
        return None
    if len(qs) == 1 and rst == "ok":
        qname = qs[0][0]
        answers = rmsg[2]
        names = chain_names(qname, answers)
        off = [r for r in answers if r[0] not in names]
        if off:
            pts = delegation_points(cfg)
            owners = {r[0] for r in answers}
            if (aa == 1 and len(owners) == 1 and all(r[1] == tok.NS for r in answers)
                    and next(iter(owners)) in pts and is_proper_ancestor(next(iter(owners)), qname)):
                return (KNOWN_REFERRAL, "referral for %s type %d: %d NS record(s) of %s in the ANSWER section with AA set" % (
                    msgtok.nametok(qname), qs[0][1], len(answers), msgtok.nametok(next(iter(owners)))))
            return ("answer-off-chain", "answer record owned by %s, not on the CNAME chain of %s" % (
                msgtok.nametok(off[0][0]), msgtok.nametok(qname)))
    return None


def canon_msg(b):
    st, m = wireref.decode(b)
    if st != "ok":
        return ("undecodable", b[:12], len(b))
    return ("msg", m[0], m[1], tuple(sorted(m[2], key=repr)), tuple(sorted(m[3], key=repr)), tuple(sorted(m[4], key=repr)))


def compare_with_model(m, model_out, replies):
    """-> None | text"""
    if m.transport in ("Tc", "Tr"):
        return None
    model_out = model_reply(model_out)          # the SERVFAIL stand-in is compared like any other reply
    if model_out in ("Panic", "OutOfFuel", "Err") or model_out.startswith("MODEL-EXN") or model_out.startswith("DRIVER"):
        return "model: " + core.trunc(model_out, 80)
    if model_out == "none":
        return None if not replies else "model: no reply (%s); implementation sent %d" % (model_out, len(replies))
    exp = unhex(model_out)
    if m.transport != "U":
        exp = exp[2:]
    if len(replies) != 1:
        return "model: one reply of %d octets; implementation sent %d" % (len(exp), len(replies))
    got = replies[0]
    if got == exp:
        return None
    if (len(got) >= 3 and got[2] & 2) or (len(exp) >= 3 and exp[2] & 2):
        # truncated: the cut may fall differently when HashMap order differs; compare header and length
        if got[:12] == exp[:12] and len(got) == len(exp):
            return None
        return "truncated replies differ: model header %s length %d, implementation header %s length %d" % (
            exp[:12].hex(), len(exp), got[:12].hex(), len(got))
    if canon_msg(got) == canon_msg(exp):
        return None
    return "model reply %s ; implementation reply %s" % (core.trunc(wireref.decode(exp), 300), core.trunc(wireref.decode(got), 300))


# ---- model expectations ------------------------------------------------------------

def model_expectations(cfg, msgs, run_dir, tag):
    cfg_line = "server CFG %s %s %s" % (cfg["mode"], "|".join(zone_token(z) for z in cfg["zones"]) or "_", hosts_token(cfg["hosts"]))
    lines = []
    for m in msgs:
        if m.transport == "U":
            lines.append("server Q U %s" % hexb(m.data))
        elif m.transport == "To":
            lines.append("server Q To %s" % hexb(m.data))
        elif m.transport == "Tr":
            lines.append("server Q Ti %s" % hexb(m.data))
        else:
            lines.append("server Q Te %s" % hexb(m.data))
    n = len(lines)
    nshards = max(1, min(16, n // 100))
    bounds = [(i * n) // nshards for i in range(nshards + 1)]
    procs = []
    for i in range(nshards):
        inp = os.path.join(run_dir, "%s.model.%d.in" % (tag, i))
        outp = os.path.join(run_dir, "%s.model.%d.out" % (tag, i))
        with open(inp, "w") as f:
            f.write(cfg_line + "\n" + "\n".join(lines[bounds[i]:bounds[i + 1]]) + "\n")
        fi, fo = open(inp), open(outp, "w")
        procs.append((subprocess.Popen([core.model_driver_path(DRIVER)], stdin=fi, stdout=fo, stderr=subprocess.DEVNULL), fi, fo, outp,
                      bounds[i + 1] - bounds[i]))
    outs = []
    for p, fi, fo, outp, cnt in procs:
        p.wait(timeout=3000)
        fi.close()
        fo.close()
        with open(outp) as f:
            got = f.read().split("\n")
        if got and got[-1] == "":
            got.pop()
        if not got or got[0] != "cfg":
            got = ["cfg"] + ["MODEL-EXN:configuration rejected: %s" % (got[0] if got else "no output")] * cnt
        got = got[1:]
        if len(got) < cnt:
            got += ["DRIVER-DIED rc=%s" % p.returncode] * (cnt - len(got))
        outs.extend(got[:cnt])
    return outs, cfg_line


# ---- driving one configuration --------------------------------------------------------

def lenient(m):
    """the client does not give the server a fair chance to deliver its reply: it closes without
    reading, or it sends more octets than it announced -- the server then closes with unread input,
    the kernel turns that into a RST, and whatever part of the reply was not yet on the wire
    (the payload is a second small write, held back by Nagle) is lost.  For these connections no
    reply, a bare prefix or a partial payload are all accepted; a COMPLETE reply is checked as usual."""
    if m.transport in ("Tc", "Tr"):
        return True
    if m.transport in ("Te", "To") and len(m.data) >= 2:
        return len(m.data) - 2 > struct.unpack(">H", m.data[:2])[0]
    return False


def split_tcp_replies(stream):
    """the octets the server wrote on one connection -> (list of reply payloads, framing error or None)"""
    if not stream:
        return [], None
    if len(stream) < 2:
        return [], "TCP reply of %d octet(s): no complete length prefix" % len(stream)
    d = struct.unpack(">H", stream[:2])[0]
    if d != len(stream) - 2:
        return [stream[2:2 + d]], "TCP length prefix %d but %d octets follow before the server closes" % (d, len(stream) - 2)
    return [stream[2:]], None


def run_config(cfg, msgs, run_dir, tag, rng, fails, stats, batch_size=96):
    t0 = time.time()
    expected, cfg_line = model_expectations(cfg, msgs, run_dir, tag)
    stats["model_s"] = stats.get("model_s", 0) + round(time.time() - t0, 2)
    for m, e in zip(msgs, expected):
        m.expected = e
    srv = Server(cfg, os.path.join(run_dir, tag))
    case_of = lambda m: "C09-real cfg=%s transport=%s%s octets=%s ; replay: %s ; then Q line as in vlib/p_c09.py" % (
        tag, m.transport, " chunks=%s" % m.chunks if m.chunks else "", hexb(m.data), core.trunc(cfg_line, 200))
    try:
        if not srv.wait_ready():
            fails.append(core.Failure("server-did-not-start", "the release binary did not answer on 127.0.0.1:%d within 20 s (exit code %s); command: %s"
                                      % (srv.port, srv.proc.poll(), " ".join(srv.cmd)), found_input=False))
            return
        counter = [rng.randrange(65536)]

        def next_id():
            counter[0] = (counter[0] + 1) & 0xFFFF
            return counter[0]

        sentinel_payload = simple_query("www.example.com.", tok.A, rd=0)
        udp = [m for m in msgs if m.transport == "U"]
        tcp = [m for m in msgs if m.transport != "U"]
        # unique ids within a batch and socket (the model was run on the final octets, so ids are assigned
        # before: here we only check)
        socks = []
        for _ in range(4):
            s = socket.socket(socket.AF_INET, socket.SOCK_DGRAM)
            s.setsockopt(socket.SOL_SOCKET, socket.SO_RCVBUF, 1 << 21)
            s.bind(("127.0.0.1", 0))
            socks.append(s)
        pool = concurrent.futures.ThreadPoolExecutor(max_workers=8)
        n_batches = max(1, (len(udp) + batch_size - 1) // batch_size)
        tcp_per = (len(tcp) + n_batches - 1) // n_batches
        liveness_fail = 0
        for bi in range(n_batches):
            ub = udp[bi * batch_size:(bi + 1) * batch_size]
            tb = tcp[bi * tcp_per:(bi + 1) * tcp_per]
            futs = [(m, pool.submit(tcp_exchange, srv.addr, m)) for m in tb]
            replies, sentinel, stray = udp_batch(srv.addr, socks, ub, sentinel_payload, next_id)
            for m, r in zip(ub, replies):
                m.got = r
            for m, f in futs:
                stream, note = f.result()
                m.note = note
                if stream is None:
                    m.got = []
                    fails.append(core.Failure("tcp-connect-failed", note, case=case_of(m)))
                    continue
                pl, err = split_tcp_replies(stream)
                m.got = pl
                if lenient(m) and (err or not pl):
                    m.got = None                   # nothing is asserted about an incomplete or missing reply here
                    stats["lenient_incomplete"] = stats.get("lenient_incomplete", 0) + 1
                    continue
                if err and m.transport in ("Te", "To") and not note.startswith("peer open"):
                    fails.append(core.Failure("tcp-prefix-wrong", err, case=case_of(m), impl=hexb(stream[:40])))
                if note.startswith("timeout"):
                    fails.append(core.Failure("tcp-not-closed", "the server neither answered nor closed the connection within 20 s",
                                              case=case_of(m)))
            for si, d in stray:
                fails.append(core.Failure("stray-datagram", "a datagram that answers nothing sent on that socket: %s" % d[:16].hex(),
                                          case="C09-real cfg=%s batch=%d" % (tag, bi), impl=hexb(d[:64])))
            # liveness: every socket's sentinel answered correctly, one TCP query answered, process running
            tcp_probe = Msg("Te", tcp_stream(with_id(sentinel_payload, next_id())), "liveness")
            stream, note = tcp_exchange(srv.addr, tcp_probe)
            pl, err = split_tcp_replies(stream or b"")
            ok_tcp = stream is not None and not err and len(pl) == 1 and pl[0][:2] == tcp_probe.data[2:4] and (pl[0][3] & 15) == 0
            ok_udp = all(d is not None and (d[3] & 15) == 0 and struct.unpack(">H", d[6:8])[0] >= 1 for d in sentinel)
            stats["liveness_probes"] = stats.get("liveness_probes", 0) + len(socks) + 1
            if not (ok_tcp and ok_udp and srv.alive()):
                liveness_fail += 1
                fails.append(core.Failure("not-serving", "after batch %d of configuration %s: UDP probe answered=%s, TCP probe answered=%s, exit code %s"
                                          % (bi, tag, ok_udp, ok_tcp, srv.proc.poll()),
                                          case="C09-real cfg=%s batch=%d: %s" % (tag, bi, "; ".join(hexb(m.data)[:80] for m in (ub + tb)[:5]))))
                if not srv.alive():
                    break
        pool.shutdown(wait=True)
        for s in socks:
            s.close()
        # evaluate
        seen = stats.setdefault("_seen", set())
        for m in msgs:
            if m.got is None:
                continue
            stats["messages"] = stats.get("messages", 0) + 1
            stats.setdefault("by_tag", {})
            stats["by_tag"][m.tag] = stats["by_tag"].get(m.tag, 0) + 1
            key = (tag, m.transport, m.data)
            if key not in seen:
                seen.add(key)
                if len(m.data) >= 2:
                    stats["distinct_nontrivial"] = stats.get("distinct_nontrivial", 0) + 1
            if m.got:
                rc = m.got[0][3] & 15 if len(m.got[0]) >= 4 else -1
                k = "rcode%d%s" % (rc, "+TC" if len(m.got[0]) >= 3 and m.got[0][2] & 2 else "")
            else:
                k = "silence"
            stats.setdefault("outcomes", {})
            stats["outcomes"][k] = stats["outcomes"].get(k, 0) + 1
            f = oracle_reply(cfg, m, m.got, m.expected)
            if f is not None:
                fails.append(core.Failure(f[0], f[1], case=case_of(m), impl=";".join(hexb(r[:300]) for r in m.got) or "no reply",
                                          model=core.trunc(m.expected, 300)))
                if f[0] == KNOWN_REFERRAL:
                    stats["known:" + f[0]] = stats.get("known:" + f[0], 0) + 1
            elif isinstance(m.expected, str) and m.expected.startswith(UNSER_PREFIX):
                stats["unserialisable_answered_servfail"] = stats.get("unserialisable_answered_servfail", 0) + 1
            d = compare_with_model(m, m.expected, m.got)
            if d is not None:
                stats["disagreements"] = stats.get("disagreements", 0) + 1
                if f is None:
                    fails.append(core.Failure("model-impl-disagree", "real binary and model disagree: " + d, case=case_of(m),
                                              impl=";".join(hexb(r[:300]) for r in m.got) or "no reply", model=core.trunc(m.expected, 300),
                                              found_input=False))
            else:
                stats["agreed"] = stats.get("agreed", 0) + 1
        rc = srv.proc.poll()
        stats.setdefault("exit_codes_before_terminate", []).append(rc)
        if rc is not None:
            fails.append(core.Failure("server-exited", "the server process ended with exit code %s during configuration %s" % (rc, tag),
                                      found_input=False))
    finally:
        srv.stop()


def assign_ids(msgs, rng, batch_size=96):
    """give every message of at least two octets an id that is unique among the UDP messages of its
    batch (replies are matched to requests by socket and id)"""
    c = rng.randrange(65536)
    for m in msgs:
        c = (c + 1) & 0xFFFF
        if m.transport == "U":
            m.data = with_id(m.data, c)
        elif len(m.data) >= 4 and m.tag not in ("tcp-prefix",):
            m.data = m.data[:2] + with_id(m.data[2:], c)


def extra(ctx):
    tier, rng, run_dir = ctx["tier"], ctx["rng"], ctx["run_dir"]
    t0 = time.time()
    fails = []
    ok, out = build_release_binaries()
    info = {"binary": "build/target-release/release/resolved (cargo build --offline --release -p resolved, guard off)",
            "build_s": round(time.time() - t0, 1)}
    if not ok:
        return ([core.Failure("release-build-failed", "cargo build --release -p resolved failed: " + core.trunc(out[-800:], 800),
                              found_input=False)], info)
    if tier == "quick":
        plan = [("A", 0, 1150, True), ("R", 1, 850, False)]
    else:
        plan = [("A", 0, 30000, True), ("R", 1, 25000, False), ("A", 2, 25000, False), ("R", 3, 20000, False)]
    stats = {}
    cfgs = []
    for (mode, idx, budget, huge) in plan:
        cfg = make_config(rng, mode, idx, huge)
        msgs = gen_messages(rng, cfg, budget, True)
        assign_ids(msgs, rng)
        cfgs.append((cfg, msgs, "cfg%d%s" % (idx, mode)))
    # the configurations run one after the other (each server is driven from several sockets / connections at once)
    for cfg, msgs, tag in cfgs:
        run_config(cfg, msgs, run_dir, tag, rng, fails, stats)
    stats.pop("_seen", None)
    info.update(stats)
    info["evaluations"] = stats.get("messages", 0)
    info["distinct_nontrivial"] = stats.get("distinct_nontrivial", 0)
    info["configurations"] = [{"tag": t, "mode": c["mode"], "zones": [z["apex"] for z in c["zones"]],
                               "records": sum(len(z["ops"]) for z in c["zones"]), "messages": len(m)} for c, m, t in cfgs]
    info["wall_s"] = round(time.time() - t0, 1)
    return fails, info
