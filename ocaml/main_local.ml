let () = Vmain.run [ ("local", Drv_local.handle) ]
