(* vutil.ml -- hand-written glue shared by the model drivers: conversions between
   OCaml ints/strings and the extracted Coq datatypes, and the case-line token
   syntax.  Part of the trusted base of the correspondence check. *)
open BinNums

let rec pos_of_int (i : int) : positive =
  if i = 1 then Coq_xH
  else if i land 1 = 0 then Coq_xO (pos_of_int (i lsr 1))
  else Coq_xI (pos_of_int (i lsr 1))

let n_of_int (i : int) : coq_N = if i = 0 then N0 else Npos (pos_of_int i)

let rec int_of_pos (p : positive) : int =
  match p with
  | Coq_xH -> 1
  | Coq_xO q -> 2 * int_of_pos q
  | Coq_xI q -> 2 * int_of_pos q + 1

let int_of_n (n : coq_N) : int = match n with N0 -> 0 | Npos p -> int_of_pos p

let rec nat_of_int (i : int) : Datatypes.nat = if i <= 0 then Datatypes.O else Datatypes.S (nat_of_int (i - 1))
let rec int_of_nat (n : Datatypes.nat) : int = match n with Datatypes.O -> 0 | Datatypes.S m -> 1 + int_of_nat m

(* decimal strings for numbers that may exceed 62 bits are not needed: every
   number in a case line fits in an OCaml int *)
let n_of_string (s : string) : coq_N = n_of_int (int_of_string s)
let string_of_n (n : coq_N) : string = string_of_int (int_of_n n)

let hexval c =
  match c with
  | '0' .. '9' -> Char.code c - 48
  | 'a' .. 'f' -> Char.code c - 87
  | 'A' .. 'F' -> Char.code c - 55
  | _ -> failwith "hex"

(* "-" is the empty byte string *)
let bytes_of_hex (s : string) : coq_N list =
  if s = "-" then []
  else begin
    let n = String.length s / 2 in
    let rec go i acc =
      if i < 0 then acc
      else go (i - 1) (n_of_int (16 * hexval s.[2 * i] + hexval s.[2 * i + 1]) :: acc)
    in
    go (n - 1) []
  end

let hex_of_bytes (l : coq_N list) : string =
  if l = [] then "-"
  else begin
    let b = Buffer.create 64 in
    List.iter (fun x -> Buffer.add_string b (Printf.sprintf "%02x" (int_of_n x))) l;
    Buffer.contents b
  end

(* label lists: labels separated by '.', "_" is the empty list *)
let labels_of_tok (s : string) : coq_N list list =
  if s = "_" then [] else List.map bytes_of_hex (String.split_on_char '.' s)

let tok_of_labels (ls : coq_N list list) : string =
  if ls = [] then "_" else String.concat "." (List.map hex_of_bytes ls)

(* code point / number lists: decimals separated by ',', "_" is the empty list *)
let nums_of_tok (s : string) : coq_N list =
  if s = "_" then [] else List.map n_of_string (String.split_on_char ',' s)

let tok_of_nums (l : coq_N list) : string =
  if l = [] then "_" else String.concat "," (List.map string_of_n l)

let string_of_bool b = if b then "true" else "false"

let show_opt f = function None -> "None" | Some x -> "Some:" ^ f x
