(* drv_server.ml -- model side of the "server" stream (C09).

   Pure-function cases (also run by the Rust harness, harness/src/server.rs):
     UDPF <hex>         send_udp_bytes_to            -> Ok:<hex of the datagram> | Panic
     TCPF <hex>         send_tcp_bytes               -> Ok:<hex of the octets written> | Panic
     TCPR <e> <hex>     read_tcp_bytes on a stream carrying <hex>, ending as <e>
                        (e = eof | io | open)        -> Ok:<hex> | TooShort:<id or ->:<expected>:<actual>
                                                        | IO:<id or -> | Pending
     RESP <hex>         Message::from_octets, then what handle_raw_message builds from it without
                        the resolver: make_response / make_format_error_response
                                                     -> R:<message> | F:<message> | none
   Whole-server cases (used by vlib/p_c09.py `extra` against the real binary; not in the harness):
     CFG <mode> <zones> <hosts zone>     set the configuration for the following Q lines  -> cfg
         mode   = A (--authoritative-only) | R (recursive, no reachable upstream)
         zones  = zone|zone|...  ("_" = none), zone as in drv_local.ml (<apex>~<soa>~<ops>); merged
                  into Zones in this order with insert_merge, as load_zone_configuration does
         hosts  = a zone token with the root apex and no SOA standing for the merged hosts files
                  (From<Hosts> for Zone: A / AAAA records with TTL 5); merged last, always
     Q U <hex>          one datagram                 -> none | <hex of the datagram sent back> | Panic
                                                        | unserialisable:<hex> (a reply message was built
                                                          but to_octets fails: <hex> is the datagram carrying
                                                          its SERVFAIL stand-in, unserialisable_fallback;
                                                          "unserialisable:none" if that cannot be serialised
                                                          either -- never happens)
     Q T<e> <hex>       one TCP connection carrying <hex>, ending as <e> (e | i | o)
                                                     -> none | <hex of the octets written back> | Panic
                                                        | unserialisable:<hex> as above *)
open Vutil
open Vmsg
open WireTypes
open ZoneModel
open ServerModel

let split_on = String.split_on_char

exception Stop of string

let unres = function
  | Prelude.Ok x -> x
  | Prelude.Panic -> raise (Stop "Panic")
  | Prelude.OutOfFuel -> raise (Stop "OutOfFuel")
  | Prelude.Err _ -> raise (Stop "Err")

let soa_of_tok (s : string) : soa option =
  if s = "N" then None
  else
    match Vrr.rdata_of_tok s with
    | RD_SOA (m, r, a, b, c, d, e) ->
      Some { soa_mname = m; soa_rname = r; soa_serial = a; soa_refresh = b; soa_retry = c; soa_expire = d; soa_minimum = e }
    | _ -> failwith "server: soa token"

let zone_of_tok (s : string) : zone =
  match split_on '~' s with
  | [ apex; soa; ops ] ->
    let z = ref (zone_new (Vrr.name_of_tok apex) (soa_of_tok soa)) in
    if ops <> "_" then
      List.iter
        (fun op ->
          let wildcard = match op.[0] with 'I' -> false | 'W' -> true | _ -> failwith "server: bad op" in
          let r = Vrr.rr_of_tok (String.sub op 1 (String.length op - 1)) in
          z := unres (zone_insert wildcard !z r.rr_name r.rr_type r.rr_data r.rr_ttl))
        (split_on '+' ops);
    !z
  | _ -> failwith "server: bad zone"

let opt_n = function Some i -> string_of_n i | None -> "-"

let show_sent (r : (unit, BinNums.coq_N list) Prelude.res) : string =
  match r with
  | Prelude.Ok bs -> "Ok:" ^ fast_hex_of_bytes bs
  | Prelude.Err _ -> "Err"
  | Prelude.Panic -> "Panic"
  | Prelude.OutOfFuel -> "OutOfFuel"

let show_reply (r : (unit, BinNums.coq_N list option) Prelude.res) : string =
  match r with
  | Prelude.Ok None -> "none"
  | Prelude.Ok (Some bs) -> fast_hex_of_bytes bs
  | Prelude.Err _ -> "Err"
  | Prelude.Panic -> "Panic"
  | Prelude.OutOfFuel -> "OutOfFuel"

let end_of_tok = function
  | "eof" | "e" -> EndEof
  | "io" | "i" -> EndIoError
  | "open" | "o" -> EndOpen
  | _ -> failwith "server: stream end"

(* current configuration: (authoritative_only, zones) *)
let config : (bool * zones) option ref = ref None

(* the cache of a server that never got an upstream answer is empty *)
let cget _ _ = []

let serve transport bytes =
  match !config with
  | None -> failwith "server: Q before CFG"
  | Some (auth_only, zs) ->
    let resolve = resolve_dead_upstream zs cget in
    let dropped r = (match r with Prelude.Ok o -> reply_unserialisable o | _ -> false) in
    if transport = "U" then begin
      (if dropped (udp_reply_message auth_only resolve bytes) then "unserialisable:" else "")
      ^ show_reply (serve_udp auth_only resolve bytes)
    end
    else if String.length transport = 2 && transport.[0] = 'T' then begin
      let e = end_of_tok (String.sub transport 1 1) in
      (if dropped (tcp_reply_message auth_only resolve bytes e) then "unserialisable:" else "")
      ^ show_reply (serve_tcp auth_only resolve bytes e)
    end
    else failwith "server: transport"

let handle (toks : string list) : string =
  match toks with
  | [ "UDPF"; h ] -> show_sent (send_udp_bytes_to (fast_bytes_of_hex h))
  | [ "TCPF"; h ] -> show_sent (send_tcp_bytes (fast_bytes_of_hex h))
  | [ "TCPR"; e; h ] ->
    (match read_tcp_bytes (fast_bytes_of_hex h) (end_of_tok e) with
     | ReadOk bs -> "Ok:" ^ fast_hex_of_bytes bs
     | ReadErr (TooShort (id, expected, actual)) ->
       "TooShort:" ^ opt_n id ^ ":" ^ string_of_n expected ^ ":" ^ string_of_n actual
     | ReadErr (TcpIO id) -> "IO:" ^ opt_n id
     | ReadPending -> "Pending")
  | [ "RESP"; h ] ->
    (match WireModel.decode (fast_bytes_of_hex h) with
     | Prelude.Ok m -> "R:" ^ tok_of_msg (make_response m)
     | Prelude.Err e ->
       (match WireModel.werr_id e with
        | Some id -> "F:" ^ tok_of_msg (make_format_error_response id)
        | None -> "none")
     | Prelude.Panic -> "Panic"
     | Prelude.OutOfFuel -> "OutOfFuel")
  | [ "CFG"; mode; zones; hosts ] ->
    (try
       let auth_only = (match mode with "A" -> true | "R" -> false | _ -> failwith "server: mode") in
       let toks = (if zones = "_" then [] else split_on '|' zones) @ [ hosts ] in
       let zs = List.fold_left (fun zs t -> unres (zones_insert_merge zs (zone_of_tok t))) [] toks in
       config := Some (auth_only, zs);
       "cfg"
     with Stop s -> config := None; "cfg-" ^ s)
  | [ "Q"; transport; h ] -> serve transport (fast_bytes_of_hex h)
  | _ -> failwith "server: bad case"
