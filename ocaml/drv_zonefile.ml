(* drv_zonefile.ml -- model side of the "zonefile" stream (C11, C13, C17).

   case:    zonefile P <text>         Zone::deserialise(text)
            zonefile S <text>         Zone::deserialise(text) then serialise()
            zonefile RT <text>        z = deserialise(text); t = z.serialise(); z2 = deserialise(t);
                                      z2 == z ?  canon(z2.serialise()) == canon(t) ?
            zonefile B <apex> <soa|-> <ops>
                                      z = Zone::new(apex, soa) + insert / insert_wildcard ops
                                      (op = I~<rr> | W~<rr>, '|'-separated, "_" = none), then as RT
     text  = decimal Unicode scalar values separated by ',' ("_" = empty)   (vlib/tok.py text/nums)
   result:  P   Ok:<apex/len>#S<soa rdata|->#R<dump>#W<dump>  |  Err:<Error variant>  |  Panic | OutOfFuel
                  dump = "_" or <name/len>=<type>:<ttl>:<rdata>;...+<name/len>=...   (all_records /
                  all_wildcard_records; names sorted by token, records stable-sorted by type code:
                  the order of type groups is HashMap order, the order inside a group is Vec order)
            S   Ok:<canonical text as nums>  |  Err:<variant> (of the parse)  |  Panic
                  canonical text: the serialised text is cut into blocks at empty lines; inside a
                  block the lines are stable-sorted by (1st field, 4th field) = (owner, type
                  mnemonic), fields being separated by runs of ' '.  This removes exactly the
                  HashMap order of the type groups; Vec order inside a group is kept.
            RT  Err:<variant> (first parse)  |  <eq>,<idem>#<P result of the second parse>
                  eq: model = the P results (canonical dumps) of z and z2 are equal strings;
                      impl = Rust's derived == on Zone (which also compares the tree shape)
            B   <eq>,<idem>#<P result of the parse of the serialised zone>
   P, S, RT and B take an optional further token (kind and expectation of the python oracle,
   ignored by both drivers) so that a replayed case line is self-contained.
   The tokeniser is private in Rust, so it is covered through P only. *)
open Vutil
open NameModel
open WireTypes
open ZoneModel
open ZoneFileModel

let split_on = String.split_on_char

(* tail-recursive: texts can be a megabyte long *)
let nums_of_tok_tr (s : string) : BinNums.coq_N list =
  if s = "_" then []
  else List.rev (List.rev_map n_of_string (split_on ',' s))

let zerr_name = function
  | TokeniserUnexpected -> "TokeniserUnexpected"
  | TokeniserUnexpectedEscape -> "TokeniserUnexpectedEscape"
  | IncludeNotSupported -> "IncludeNotSupported"
  | MultipleSOA -> "MultipleSOA"
  | WildcardSOA -> "WildcardSOA"
  | NotSubdomainOfApex -> "NotSubdomainOfApex"
  | Unexpected -> "Unexpected"
  | ExpectedU32 -> "ExpectedU32"
  | ExpectedOrigin -> "ExpectedOrigin"
  | ExpectedDomainName -> "ExpectedDomainName"
  | WrongLen -> "WrongLen"
  | MissingType -> "MissingType"
  | MissingTTL -> "MissingTTL"
  | MissingDomainName -> "MissingDomainName"

let stable_by_type (key : 'a -> int) (l : 'a list) : 'a list = List.stable_sort (fun a b -> compare (key a) (key b)) l

let show_zrec (z : zrec) : string =
  String.concat ":" [ string_of_n z.zr_type; string_of_n z.zr_ttl; Vrr.tok_of_rdata z.zr_data ]

let show_dump (l : (dname * zrec list) list) : string =
  if l = [] then "_"
  else begin
    let l = List.map (fun (n, zs) -> (Vrr.show_name n, stable_by_type (fun z -> int_of_n z.zr_type) zs)) l in
    let l = List.sort (fun (a, _) (b, _) -> compare a b) l in
    String.concat "+" (List.map (fun (n, zs) -> n ^ "=" ^ String.concat ";" (List.map show_zrec zs)) l)
  end

let show_zone (z : zone) : string =
  "Ok:" ^ Vrr.show_name z.z_apex
  ^ "#S" ^ (match z.z_soa with Some s -> Vrr.tok_of_rdata (soa_to_rdata s) | None -> "-")
  ^ "#R" ^ show_dump (zone_all_records z)
  ^ "#W" ^ show_dump (zone_all_wildcard_records z)

let show_parse (r : (zerr, zone) Prelude.res) : string =
  match r with
  | Prelude.Ok z -> show_zone z
  | Prelude.Err e -> "Err:" ^ zerr_name e
  | Prelude.Panic -> "Panic"
  | Prelude.OutOfFuel -> "OutOfFuel"

(* serialised text -> OCaml string (the text is ASCII) *)
let string_of_text (l : BinNums.coq_N list) : string =
  let b = Buffer.create 4096 in
  List.iter (fun c -> let i = int_of_n c in Buffer.add_char b (if i < 256 then Char.chr i else '?')) l;
  Buffer.contents b

let fields (line : string) : string list = List.filter (fun f -> f <> "") (split_on ' ' line)

let canon_text (t : string) : string =
  let lines = split_on '\n' t in
  let key l = match fields l with
    | a :: _ :: _ :: d :: _ -> (a, d)
    | a :: _ -> (a, "")
    | [] -> ("", "") in
  (* blocks are maximal runs of non-empty lines *)
  let flush blk acc = if blk = [] then acc else List.stable_sort (fun a b -> compare (key a) (key b)) (List.rev blk) :: acc in
  let rec go ls blk acc =
    match ls with
    | [] -> List.rev (flush blk acc)
    | "" :: r -> go r [] ([ "" ] :: flush blk acc)
    | l :: r -> go r (l :: blk) acc in
  String.concat "\n" (List.concat (go lines [] []))

let tok_of_string (s : string) : string =
  if s = "" then "_"
  else begin
    let b = Buffer.create (4 * String.length s) in
    String.iteri (fun i c -> if i > 0 then Buffer.add_char b ','; Buffer.add_string b (string_of_int (Char.code c))) s;
    Buffer.contents b
  end

exception Ser_panic

let serialise (z : zone) : string =
  match ZfInstance.zf_serialise z with
  | Prelude.Ok t -> string_of_text t
  | _ -> raise Ser_panic

let text_of_string (s : string) : BinNums.coq_N list =
  List.rev (let acc = ref [] in String.iter (fun c -> acc := n_of_int (Char.code c) :: !acc) s; !acc)

(* z -> "<eq>,<idem>#<P result of the reparse>" *)
let roundtrip (z : zone) : string =
  try
    let t1 = serialise z in
    let r2 = ZfInstance.zf_deserialise (text_of_string t1) in
    match r2 with
    | Prelude.Ok z2 ->
      let eq = show_zone z = show_zone z2 in
      let t2 = serialise z2 in
      let idem = canon_text t1 = canon_text t2 in
      string_of_bool eq ^ "," ^ string_of_bool idem ^ "#" ^ show_zone z2
    | r -> "false,false#" ^ show_parse r
  with Ser_panic -> "Panic"

let soa_of_tok (s : string) : soa option =
  if s = "-" then None
  else
    match Vrr.rdata_of_tok s with
    | RD_SOA (m, r, a, b, c, d, e) ->
      Some { soa_mname = m; soa_rname = r; soa_serial = a; soa_refresh = b; soa_retry = c; soa_expire = d; soa_minimum = e }
    | _ -> failwith "zonefile: soa token"

let handle (toks : string list) : string =
  match toks with
  | [ "P"; t ] | [ "P"; t; _ ] -> show_parse (ZfInstance.zf_deserialise (nums_of_tok_tr t))
  | [ "S"; t ] | [ "S"; t; _ ] ->
    (match ZfInstance.zf_deserialise (nums_of_tok_tr t) with
     | Prelude.Ok z -> (try "Ok:" ^ tok_of_string (canon_text (serialise z)) with Ser_panic -> "Panic")
     | r -> show_parse r)
  | [ "RT"; t ] | [ "RT"; t; _ ] ->
    (match ZfInstance.zf_deserialise (nums_of_tok_tr t) with
     | Prelude.Ok z -> roundtrip z
     | r -> show_parse r)
  | [ "B"; apex_t; soa_t; ops_t ] | [ "B"; apex_t; soa_t; ops_t; _ ] ->
    let apex = Vrr.name_of_tok apex_t in
    let z = ref (zone_new apex (soa_of_tok soa_t)) in
    let ops = if ops_t = "_" then [] else split_on '|' ops_t in
    (try
       List.iter
         (fun o ->
           match split_on '~' o with
           | [ k; rr_t ] when k = "I" || k = "W" ->
             let r = Vrr.rr_of_tok rr_t in
             (match zone_insert (k = "W") !z r.rr_name r.rr_type r.rr_data r.rr_ttl with
              | Prelude.Ok z' -> z := z'
              | _ -> raise Ser_panic)
           | _ -> failwith ("zonefile: bad op " ^ o))
         ops;
       roundtrip !z
     with Ser_panic -> "Panic")
  | _ -> failwith "zonefile: bad case"
