let () = Vmain.run [ ("validate", Drv_validate.handle) ]
