let () = Vmain.run [ ("cache", Drv_cache.handle) ]
