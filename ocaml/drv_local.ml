(* drv_local.ml -- model side of the "local" stream (local part of C01 and C10).

   case:    local R <zones> <cache> <questions> [<tag>]
            local T <ms> <zones> <cache> <questions> [<tag>]   (clock advanced by <ms> ms after filling the cache)
     tag       = free text without spaces naming the generator family (ignored by the drivers)
     zones     = zone|zone|...            ("_" = no zone); inserted into Zones in this order
     zone      = <apex name>~<soa>~<ops>
     soa       = N                        (non-authoritative, Zone::new(apex, None))
               | s<mname>,<rname>,<serial>,<refresh>,<retry>,<expire>,<minimum>
     ops       = op+op+...                ("_" = none)
     op        = I<rr>                    Zone::insert(name, rtype_with_data, ttl)
               | W<rr>                    Zone::insert_wildcard(name, ..)  (name = the domain the
                                          wildcard hangs under); the class field of <rr> is ignored
     cache     = <rrs>                    SharedCache::insert of each RR in this order, virtual
                                          clock fixed at 0 (so the TTLs come back unchanged)
     questions = <question>|<question>|...
   result:  one entry per question, joined by '|':
       <resolved>!<local>
     resolved  = what dns_resolver::resolve(false, ..) returns (authoritative-only mode):
                 A<rrs>/<soa rr> | X<soa rr> | N<rrs>/<soa rr or None> | E<error>
     local     = what resolve_local returns with a fresh context:
                 D<resolved> | P<rrs> | G<rrs>/<soa rr or None>/<name>/<hostnames ; separated or _>
                 | C<rrs>/<question> | E<error>
     error     = timeout | reclimit | dup:<question> | dead:<question>
                 | nons:<apex>,<domain> | mismatch:<query>,<result>
   RR order is kept exactly, except for QTYPE 255 (ANY) where the list is stable-sorted by
   record type code: the order of the type groups is HashMap iteration order in zones and
   cache; the order inside a group is Vec order and is kept.
   A Panic while building the zones makes the whole result "Panic"; a Panic / OutOfFuel
   of one question is printed for that question. *)
open Vutil
open WireTypes
open ZoneModel
open LocalModel

let split_on = String.split_on_char
let n0 = BinNums.N0

exception Stop of string

let unres = function
  | Prelude.Ok x -> x
  | Prelude.Panic -> raise (Stop "Panic")
  | Prelude.OutOfFuel -> raise (Stop "OutOfFuel")
  | Prelude.Err _ -> raise (Stop "Err")

let soa_of_tok (s : string) : soa option =
  if s = "N" then None
  else
    match Vrr.rdata_of_tok s with
    | RD_SOA (m, r, a, b, c, d, e) ->
      Some { soa_mname = m; soa_rname = r; soa_serial = a; soa_refresh = b; soa_retry = c; soa_expire = d; soa_minimum = e }
    | _ -> failwith "local: soa token"

let zone_of_tok (s : string) : zone =
  match split_on '~' s with
  | [ apex; soa; ops ] ->
    let z = ref (zone_new (Vrr.name_of_tok apex) (soa_of_tok soa)) in
    if ops <> "_" then
      List.iter
        (fun op ->
          let wildcard = match op.[0] with 'I' -> false | 'W' -> true | _ -> failwith "local: bad op" in
          let r = Vrr.rr_of_tok (String.sub op 1 (String.length op - 1)) in
          z := unres (zone_insert wildcard !z r.rr_name r.rr_type r.rr_data r.rr_ttl))
        (split_on '+' ops);
    !z
  | _ -> failwith "local: bad zone"

let show_rrs (qtype : int) (rrs : rr list) : string =
  let rrs = if qtype = 255 then List.stable_sort (fun a b -> compare (int_of_n a.rr_type) (int_of_n b.rr_type)) rrs else rrs in
  Vrr.tok_of_rrs rrs

let show_resolved qt (r : resolved) : string =
  match r with
  | Authoritative (rrs, soa) -> "A" ^ show_rrs qt rrs ^ "/" ^ Vrr.tok_of_rr soa
  | AuthoritativeNameError soa -> "X" ^ Vrr.tok_of_rr soa
  | NonAuthoritative (rrs, soa) ->
    "N" ^ show_rrs qt rrs ^ "/" ^ (match soa with Some s -> Vrr.tok_of_rr s | None -> "None")

let show_error (e : rerror) : string =
  match e with
  | ETimeout -> "Etimeout"
  | ERecursionLimit -> "Ereclimit"
  | EDuplicateQuestion q -> "Edup:" ^ Vrr.tok_of_question q
  | EDeadEnd q -> "Edead:" ^ Vrr.tok_of_question q
  | ELocalDelegationMissingNS (a, d) -> "Enons:" ^ Vrr.name_tok a ^ "," ^ Vrr.name_tok d
  | ECacheTypeMismatch (q, r) -> "Emismatch:" ^ string_of_n q ^ "," ^ string_of_n r

let show_local qt (l : lresult) : string =
  match l with
  | LDone r -> "D" ^ show_resolved qt r
  | LPartial rrs -> "P" ^ show_rrs qt rrs
  | LDelegation (rrs, soa, ns) ->
    "G" ^ show_rrs qt rrs ^ "/" ^ (match soa with Some s -> Vrr.tok_of_rr s | None -> "None")
    ^ "/" ^ Vrr.name_tok ns.ns_name ^ "/"
    ^ (if ns.ns_hostnames = [] then "_" else String.concat ";" (List.map Vrr.name_tok ns.ns_hostnames))
  | LCname (rrs, q) -> "C" ^ show_rrs qt rrs ^ "/" ^ Vrr.tok_of_question q

let show_res f = function
  | Prelude.Ok x -> f x
  | Prelude.Err e -> show_error e
  | Prelude.Panic -> "Panic"
  | Prelude.OutOfFuel -> "OutOfFuel"

let run ?(now = n0) (zones : string) (cache : string) (questions : string) : string =
  try
    let zs =
      if zones = "_" then []
      else List.fold_left (fun zs tok -> zones_insert zs (zone_of_tok tok)) [] (split_on '|' zones)
    in
    let c =
      List.fold_left (fun c r -> unres (CacheModel.shared_insert c n0 r)) CacheModel.cache_new (Vrr.rrs_of_tok cache)
    in
    (* the cache read function at one fixed instant (0 for R; the advanced clock for T): SharedCache::get *)
    let cget name qtype = snd (CacheModel.get c now name qtype) in
    String.concat "|"
      (List.map
         (fun qtok ->
           let q = Vrr.question_of_tok qtok in
           let qt = int_of_n q.q_type in
           let r1 = resolve_authoritative_only zs cget q in
           let r2 = resolve_local zs cget coq_LOCAL_FUEL [] q in
           show_res (show_resolved qt) r1 ^ "!" ^ show_res (show_local qt) r2)
         (split_on '|' questions))
  with Stop s -> s

let handle (toks : string list) : string =
  match toks with
  | [ "R"; zones; cache; questions ] | [ "R"; zones; cache; questions; _ ] -> run zones cache questions
  (* T <ms>: as R, but the virtual clock is advanced by <ms> milliseconds after the cache was filled *)
  | [ "T"; ms; zones; cache; questions ] | [ "T"; ms; zones; cache; questions; _ ] ->
    run ~now:(BinNat.N.mul (n_of_string ms) (n_of_int 1000000)) zones cache questions
  | _ -> failwith "local: bad case"
