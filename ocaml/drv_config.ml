(* drv_config.ml -- model side of the "config" stream (C12, C19).

   case:    config L <args> <fs> <apexes> <questions> [<tag>]
            config R <args> <questions> <fs0> <fs1> ... <fsk>      reload history, resolver-level answers
            config M <args> <questions> <fs0> <fs1> ... <fsk>      the same, reply-level answers (model only;
                                                                    used against the real binary by C19)
     args      = <z>;<Z>;<a>;<A>         the four path lists of Args in this order: -z zone files, -Z zone
                                          directories, -a hosts files, -A hosts directories; each list is
                                          path,path,... or "_"
     path      = [A-Za-z0-9._-]+          relative to the scratch directory of the case
     fs        = entry|entry|...  or "_"
     entry     = F~<path>~<content>                       a file reachable by that path
               | D~<path>~<dentry>+<dentry>... (or "_")   a directory and its listing (creation order)
     dentry    = <file name>^<content> | <file name>^S    S: a sub-directory
     content   = <data>%<hex of the file's bytes>          the model reads <data>, the implementation the bytes
     data      = Z<apex>@<soa|->@<op>&<op>... (or "_")     what Zone::deserialise yields: Zone::new(apex, soa),
                                                           then the ops in order; op = I<rr> | W<rr>
               | H<name>@<a.. or q.. rdata>&...  (or "_")  what Hosts::deserialise yields: the (name, address)
                                                           pairs in line order
               | Xg | Xb | Xm                              no zone / no hosts: unparsable text, not UTF-8,
                                                           missing (dangling symlink inside a directory)
     apexes    = name,name,...            the apexes to dump (Zones offers no iteration)
     questions = <name>~<qtype>|...  (L)    <question>|<question>...  (R, M)     or "_"
   result L: None | <zdump>|<zdump>...#<ans>|<ans>...
     zdump     = <apex>=-                          Zones::get(apex) is absent or has another apex
               | <apex>=S<soa rdata|->!R<dump>!W<dump>      dumps as in drv_zone.ml
     ans       = -  (Zones::resolve = None)  |  <apex of the zone>><res>   res as in drv_zone.ml
   result R: Exit  (the first load fails: main exits)
             | <step>$<step>...   one per fs; step = S:<answers> (load succeeded) | F:<answers> (failed; for
               fs0 only S occurs); answers from the state after the step, resolved as in drv_local.ml
   result M: the same with answers = <rcode>/<aa>/<answer rrs>/<authority rrs>
   A Panic anywhere makes the whole result "Panic". *)
open Vutil
open WireTypes
open ZoneModel
open LocalModel
open ConfigModel

let split_on = String.split_on_char

exception Stop of string

let unres = function
  | Prelude.Ok x -> x
  | Prelude.Panic -> raise (Stop "Panic")
  | Prelude.OutOfFuel -> raise (Stop "OutOfFuel")
  | Prelude.Err _ -> raise (Stop "Err")

let bytes_of_string (s : string) : BinNums.coq_N list = List.init (String.length s) (fun i -> n_of_int (Char.code s.[i]))

let soa_of_tok (s : string) : soa option =
  if s = "-" then None
  else
    match Vrr.rdata_of_tok s with
    | RD_SOA (m, r, a, b, c, d, e) ->
      Some { soa_mname = m; soa_rname = r; soa_serial = a; soa_refresh = b; soa_retry = c; soa_expire = d; soa_minimum = e }
    | _ -> failwith "config: soa token"

let list_of (sep : char) (s : string) : string list = if s = "_" then [] else split_on sep s

let zone_of_data (s : string) : zone =
  match split_on '@' s with
  | [ apex; soa; ops ] ->
    let z = ref (zone_new (Vrr.name_of_tok apex) (soa_of_tok soa)) in
    List.iter
      (fun op ->
        let wildcard = match op.[0] with 'I' -> false | 'W' -> true | _ -> failwith "config: bad op" in
        let r = Vrr.rr_of_tok (String.sub op 1 (String.length op - 1)) in
        z := unres (zone_insert wildcard !z r.rr_name r.rr_type r.rr_data r.rr_ttl))
      (list_of '&' ops);
    !z
  | _ -> failwith "config: bad zone data"

let hosts_of_data (s : string) : hosts =
  let es =
    List.map
      (fun e ->
        match split_on '@' e with
        | [ n; d ] ->
          (match Vrr.rdata_of_tok d with
           | RD_A a -> HV4 (Vrr.name_of_tok n, a)
           | RD_AAAA segs -> HV6 (Vrr.name_of_tok n, segs)
           | _ -> failwith "config: hosts address")
        | _ -> failwith "config: hosts entry")
      (list_of '&' s)
  in
  hosts_of_entries es

let cfile_of_content (s : string) : cfile =
  let data = match String.index_opt s '%' with Some i -> String.sub s 0 i | None -> s in
  let body = String.sub data 1 (String.length data - 1) in
  match data.[0] with
  | 'Z' -> coq_ZoneFile (Some (zone_of_data body))
  | 'H' -> coq_HostsFile (Some (hosts_of_data body))
  | 'X' -> if body = "g" then Parsed (None, None) else Unreadable
  | _ -> failwith "config: bad content"

let fs_of_tok (s : string) : fs =
  let files = ref [] and dirs = ref [] in
  List.iter
    (fun e ->
      match split_on '~' e with
      | [ "F"; p; c ] -> files := (bytes_of_string p, cfile_of_content c) :: !files
      | [ "D"; p; l ] ->
        let es =
          List.map
            (fun de ->
              match String.index_opt de '^' with
              | Some i ->
                let n = String.sub de 0 i and c = String.sub de (i + 1) (String.length de - i - 1) in
                (bytes_of_string n, if c = "S" then ESubdir else EFile (cfile_of_content c))
              | None -> failwith "config: bad dentry")
            (list_of '+' l)
        in
        dirs := (bytes_of_string p, es) :: !dirs
      | _ -> failwith ("config: bad fs entry " ^ e))
    (list_of '|' s);
  { fs_files = List.rev !files; fs_dirs = List.rev !dirs }

let args_of_tok (s : string) : config_args =
  match split_on ';' s with
  | [ z; zd; a; ad ] ->
    let l x = List.map bytes_of_string (list_of ',' x) in
    { a_hosts_files = l a; a_hosts_dirs = l ad; a_zone_files = l z; a_zone_dirs = l zd }
  | _ -> failwith "config: bad args"

(* ---- printing (as drv_zone.ml / drv_local.ml) ---- *)
let stable_by_type (key : 'a -> int) (l : 'a list) : 'a list = List.stable_sort (fun a b -> compare (key a) (key b)) l

let show_zres (r : zresult) : string =
  match r with
  | ZAnswer rrs -> "A" ^ Vrr.tok_of_rrs (stable_by_type (fun r -> int_of_n r.rr_type) rrs)
  | ZCname (c, r) -> "C" ^ Vrr.name_tok c ^ "=" ^ Vrr.tok_of_rr r
  | ZDelegation rrs ->
    "D" ^ (match rrs with r :: _ -> Vrr.show_name r.rr_name | [] -> "_") ^ "=" ^ Vrr.tok_of_rrs rrs
  | ZNameError -> "N"

let show_zrec (z : zrec) : string =
  String.concat ":" [ string_of_n z.zr_type; string_of_n z.zr_ttl; Vrr.tok_of_rdata z.zr_data ]

let show_dump (l : (NameModel.dname * zrec list) list) : string =
  if l = [] then "_"
  else begin
    let l = List.map (fun (n, zs) -> (Vrr.show_name n, stable_by_type (fun z -> int_of_n z.zr_type) zs)) l in
    let l = List.sort (fun (a, _) (b, _) -> compare a b) l in
    String.concat "+" (List.map (fun (n, zs) -> n ^ "=" ^ String.concat ";" (List.map show_zrec zs)) l)
  end

let show_rrs (qtype : int) (rrs : rr list) : string =
  let rrs = if qtype = 255 then stable_by_type (fun (r : rr) -> int_of_n r.rr_type) rrs else rrs in
  Vrr.tok_of_rrs rrs

let show_resolved qt (r : resolved) : string =
  match r with
  | Authoritative (rrs, soa) -> "A" ^ show_rrs qt rrs ^ "/" ^ Vrr.tok_of_rr soa
  | AuthoritativeNameError soa -> "X" ^ Vrr.tok_of_rr soa
  | NonAuthoritative (rrs, soa) ->
    "N" ^ show_rrs qt rrs ^ "/" ^ (match soa with Some s -> Vrr.tok_of_rr s | None -> "None")

let show_error (e : rerror) : string =
  match e with
  | ETimeout -> "Etimeout"
  | ERecursionLimit -> "Ereclimit"
  | EDuplicateQuestion q -> "Edup:" ^ Vrr.tok_of_question q
  | EDeadEnd q -> "Edead:" ^ Vrr.tok_of_question q
  | ELocalDelegationMissingNS (a, d) -> "Enons:" ^ Vrr.name_tok a ^ "," ^ Vrr.name_tok d
  | ECacheTypeMismatch (q, r) -> "Emismatch:" ^ string_of_n q ^ "," ^ string_of_n r

(* ---- L ---- *)
let run_load (args : string) (fs : string) (apexes : string) (questions : string) : string =
  let a = args_of_tok args in
  let f = fs_of_tok fs in
  match unres (load_res a f) with
  | None -> "None"
  | Some zs ->
    let zd =
      List.map
        (fun at ->
          let apex = Vrr.name_of_tok at in
          match NameModel.zones_get zs apex with
          | Some z when NameModel.dname_eqb z.z_apex apex ->
            at ^ "=S" ^ (match z.z_soa with Some s -> Vrr.tok_of_rdata (soa_to_rdata s) | None -> "-")
            ^ "!R" ^ show_dump (zone_all_records z) ^ "!W" ^ show_dump (zone_all_wildcard_records z)
          | _ -> at ^ "=-")
        (list_of ',' apexes)
    in
    let ans =
      List.map
        (fun q ->
          match split_on '~' q with
          | [ n; qt ] ->
            (match zones_resolve zs (Vrr.name_of_tok n) (n_of_string qt) with
             | None -> "-"
             | Some (z, r) -> Vrr.name_tok z.z_apex ^ ">" ^ show_zres (unres r))
          | _ -> failwith "config: bad query")
        (list_of '|' questions)
    in
    String.concat "|" zd ^ "#" ^ String.concat "|" ans

(* ---- R / M ---- *)
let answers_resolved (st : zones) (qs : question list) : string =
  String.concat "|"
    (List.map
       (fun q ->
         let qt = int_of_n q.q_type in
         match resolve_authoritative_only st (fun _ _ -> []) q with
         | Prelude.Ok r -> show_resolved qt r
         | Prelude.Err e -> show_error e
         | Prelude.Panic -> "Panic"
         | Prelude.OutOfFuel -> "OutOfFuel")
       qs)

let answers_message (st : zones) (qs : question list) : string =
  String.concat "|"
    (List.map
       (fun q ->
         let qt = int_of_n q.q_type in
         match query st q with
         | Prelude.Ok a ->
           String.concat "/"
             [ string_of_n a.an_rcode; (if a.an_aa then "1" else "0"); show_rrs qt a.an_answers; Vrr.tok_of_rrs a.an_authority ]
         | Prelude.Panic -> "Panic"
         | Prelude.OutOfFuel -> "OutOfFuel"
         | Prelude.Err _ -> "Err")
       qs)

let run_history (answers : zones -> question list -> string) (args : string) (questions : string) (fss : string list) : string =
  let a = args_of_tok args in
  let qs = List.map Vrr.question_of_tok (list_of '|' questions) in
  match fss with
  | [] -> failwith "config: no file system"
  | f0 :: rest ->
    (* Panic of a load is kept apart from None *)
    let load_checked f = ignore (unres (load_res a f)) in
    let f0 = fs_of_tok f0 in
    load_checked f0;
    (match start a f0 with
     | None -> "Exit"
     | Some st0 ->
       let st = ref st0 in
       let out = ref [ "S:" ^ answers st0 qs ] in
       List.iter
         (fun ft ->
           let f = fs_of_tok ft in
           load_checked f;
           let ok = (match load a f with None -> false | Some _ -> true) in
           st := reload a !st f;
           out := ((if ok then "S:" else "F:") ^ answers !st qs) :: !out)
         rest;
       String.concat "$" (List.rev !out))

let handle (toks : string list) : string =
  try
    match toks with
    | [ "L"; args; fs; apexes; questions ] | [ "L"; args; fs; apexes; questions; _ ] -> run_load args fs apexes questions
    | "R" :: args :: questions :: fss -> run_history answers_resolved args questions fss
    | "M" :: args :: questions :: fss -> run_history answers_message args questions fss
    | _ -> failwith "config: bad case"
  with Stop s -> s
