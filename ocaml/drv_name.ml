(* drv_name.ml -- model side of the "name" stream (C16). *)
open Vutil
open NameModel
open BinNums

(* labels go through the model's Label::try_from, as the harness builds them
   through the real one *)
let labels_of_tok (s : string) : label list =
  List.map (fun l -> match label_try_from l with Some x -> x | None -> failwith "label token too long")
    (Vutil.labels_of_tok s)

let swapcase (s : coq_N list) : coq_N list =
  List.map (fun c -> let i = int_of_n c in
             if i >= 65 && i <= 90 then n_of_int (i + 32)
             else if i >= 97 && i <= 122 then n_of_int (i - 32) else c) s

let show_name (n : dname) : string = tok_of_labels n.labels ^ "/" ^ string_of_n n.nlen

(* a name given by its labels; the recorded length is what from_labels computes,
   or the plain sum when from_labels rejects (only used for raw-field cases) *)
let name_of_tok (s : string) : dname =
  let ls = labels_of_tok s in
  match from_labels ls with
  | Some n -> n
  | None ->
    { labels = ls; nlen = n_of_int (List.fold_left (fun a l -> a + 1 + List.length l) 0 ls) }

let werr_name = function
  | CompletelyBusted -> "CompletelyBusted"
  | HeaderTooShort -> "HeaderTooShort"
  | QuestionTooShort -> "QuestionTooShort"
  | ResourceRecordTooShort -> "ResourceRecordTooShort"
  | ResourceRecordInvalid -> "ResourceRecordInvalid"
  | DomainTooShort -> "DomainTooShort"
  | DomainTooLong -> "DomainTooLong"
  | DomainPointerInvalid -> "DomainPointerInvalid"
  | DomainLabelInvalid -> "DomainLabelInvalid"

let handle (toks : string list) : string =
  match toks with
  | [ "LT"; h ] -> show_opt hex_of_bytes (label_try_from (bytes_of_hex h))
  | [ "FL"; ls ] -> show_opt show_name (from_labels (labels_of_tok ls))
  | [ "DS"; s ] -> show_opt show_name (from_dotted_string (nums_of_tok s))
  | [ "DS2"; s ] ->
    show_opt show_name (from_dotted_string (nums_of_tok s)) ^ "|"
    ^ show_opt show_name (from_dotted_string (swapcase (nums_of_tok s)))
  | [ "TD"; n ] -> tok_of_nums (to_dotted_string (name_of_tok n))
  | [ "RD"; o; s ] -> show_opt show_name (from_relative_dotted_string (name_of_tok o) (nums_of_tok s))
  | [ "MS"; n; o ] -> show_opt show_name (make_subdomain_of (name_of_tok n) (name_of_tok o))
  | [ "SUB"; a; b ] -> string_of_bool (is_subdomain_of (name_of_tok a) (name_of_tok b))
  | [ "WN"; h ] ->
    (* the bytes are placed after a 12-byte header; see harness/src/name.rs *)
    let msg = bytes_of_hex ("000000000001000000000000" ^ (if h = "-" then "" else h) ^ "00010001") in
    (match decode_name_at msg (n_of_int 12) with
     | Prelude.Ok (n, p) ->
       (* Question::deserialise then reads QTYPE and QCLASS *)
       if int_of_n p + 4 > List.length msg then "Err:QuestionTooShort" else "Ok:" ^ show_name n
     | Prelude.Err e -> "Err:" ^ werr_name e
     | Prelude.Panic -> "Panic"
     | Prelude.OutOfFuel -> "OutOfFuel")
  | [ "WNS"; parts ] ->
    (* several question names in one message: later names may point into earlier ones *)
    let ps = String.split_on_char ',' parts in
    let body = String.concat "" (List.map (fun h -> (if h = "-" then "" else h) ^ "00010001") ps) in
    let msg = bytes_of_hex (Printf.sprintf "00000000%04x000000000000" (List.length ps) ^ body) in
    let total = List.length msg in
    let rec go k pos acc =
      if k = 0 then "Ok:" ^ String.concat "," (List.rev acc)
      else match decode_name_at msg (n_of_int pos) with
        | Prelude.Ok (n, p) ->
          if int_of_n p + 4 > total then "Err:QuestionTooShort" else go (k - 1) (int_of_n p + 4) (show_name n :: acc)
        | Prelude.Err e -> "Err:" ^ werr_name e
        | Prelude.Panic -> "Panic"
        | Prelude.OutOfFuel -> "OutOfFuel"
    in
    go (List.length ps) 12 []
  | [ "ZG"; apexes; n ] ->
    let zs = List.map (fun a -> let nm = name_of_tok a in (nm, nm)) (String.split_on_char ';' apexes) in
    show_opt show_name (zones_get zs (name_of_tok n))
  | _ -> failwith "name: bad case"
