(* drv_cache.ml -- model side of the "cache" stream (C05, C15).

   case:    cache H <desired_size> <op>|<op>|...
     op  =  T~<dt ns>            the virtual clock advances
          | I~<rr>               SharedCache::insert
          | A~<rrs>              SharedCache::insert_all ("_" = empty slice)
          | G~<name>~<qtype>     SharedCache::get
          | R~<name>~<qtype>     SharedCache::get_without_checking_expiration
          | P                    SharedCache::prune
   result:  one entry per op, joined by '|'
     T      ->  T<now ns>
     other  ->  <out>!<dump>
       out  =  U | L<rrs> | P<overflowed 0/1>,<current>,<expired>,<pruned>
               (rrs: stable-sorted by type code -- the order of the type groups of an ANY
               answer is HashMap iteration order; the order inside a group is Vec order
               and is kept)
       dump =  S<current>/<desired>{#N<name>/<last_read>/<next_expiry>/<size>/<records>}#A<queue>#E<queue>
               partitions sorted by name token; records = <type>=<tuple>&<tuple>.. joined by
               '+', sorted by type code, tuple = <rdata>@<expiry>, Vec order kept;
               queue = <name>=<instant> joined by '&', sorted by name token
   A Panic / OutOfFuel outcome of any step makes the whole result "Panic" / "OutOfFuel". *)
open Vutil
open CacheModel
open WireTypes

let split_on = String.split_on_char

(* instants can exceed an OCaml int (a u32::MAX TTL is 4.29e18 ns): decimal conversion
   through the extracted arithmetic / Prelude.show_dec instead of Vutil.string_of_n *)
let big_of_string (s : string) : BinNums.coq_N =
  let ten = n_of_int 10 in
  let acc = ref BinNums.N0 in
  String.iter
    (fun ch ->
      if ch < '0' || ch > '9' then failwith "cache: bad number";
      acc := BinNat.N.add (BinNat.N.mul !acc ten) (n_of_int (Char.code ch - 48)))
    s;
  !acc

let string_of_big (n : BinNums.coq_N) : string =
  String.concat "" (List.map (fun c -> String.make 1 (Char.chr (int_of_n c))) (Prelude.show_dec n))

let op_of_tok (s : string) : op =
  match split_on '~' s with
  | [ "T"; dt ] -> Advance (big_of_string dt)
  | [ "I"; r ] -> Insert (Vrr.rr_of_tok r)
  | [ "A"; rs ] -> InsertAll (Vrr.rrs_of_tok rs)
  | [ "G"; n; qt ] -> Get (Vrr.name_of_tok n, n_of_string qt)
  | [ "R"; n; qt ] -> GetRaw (Vrr.name_of_tok n, n_of_string qt)
  | [ "P" ] -> Prune
  | _ -> failwith ("cache: bad op " ^ s)

let show_queue (q : pqueue) : string =
  let l = List.map (fun (k, p) -> (Vrr.name_tok k, string_of_big p)) q in
  let l = List.sort (fun (a, _) (b, _) -> compare a b) l in
  String.concat "&" (List.map (fun (k, p) -> k ^ "=" ^ p) l)

let show_records (recs : (BinNums.coq_N * (rdata * BinNums.coq_N) list) list) : string =
  let l = List.map (fun (t, ts) -> (int_of_n t, ts)) recs in
  let l = List.sort (fun (a, _) (b, _) -> compare a b) l in
  String.concat "+"
    (List.map
       (fun (t, ts) ->
         string_of_int t ^ "="
         ^ String.concat "&" (List.map (fun (d, e) -> Vrr.tok_of_rdata d ^ "@" ^ string_of_big e) ts))
       l)

let show_dump (c : cache) : string =
  let parts =
    List.map
      (fun (k, p) ->
        ( Vrr.name_tok k,
          String.concat "/"
            [ string_of_big p.p_last_read; string_of_big p.p_next_expiry; string_of_n p.p_size; show_records p.p_records ] ))
      c.c_parts
  in
  let parts = List.sort (fun (a, _) (b, _) -> compare a b) parts in
  "S" ^ string_of_n c.c_size ^ "/" ^ string_of_n c.c_desired
  ^ String.concat "" (List.map (fun (k, s) -> "#N" ^ k ^ "/" ^ s) parts)
  ^ "#A" ^ show_queue c.c_access ^ "#E" ^ show_queue c.c_expiry

let show_out (o : out) : string =
  match o with
  | OUnit -> "U"
  | ORRs rrs ->
    let rrs = List.stable_sort (fun a b -> compare (int_of_n a.rr_type) (int_of_n b.rr_type)) rrs in
    "L" ^ Vrr.tok_of_rrs rrs
  | OPrune r ->
    Printf.sprintf "P%d,%s,%s,%s" (if r.pr_overflowed then 1 else 0) (string_of_n r.pr_current)
      (string_of_n r.pr_expired) (string_of_n r.pr_pruned)

exception Stop of string

let history (desired : string) (ops : string) : string =
  let c = ref (with_desired_size (n_of_string desired)) in
  let now = ref BinNums.N0 in
  let buf = Buffer.create 4096 in
  let first = ref true in
  try
    List.iter
      (fun tok ->
        let o = op_of_tok tok in
        match step tb_first !c !now o with
        | Prelude.Ok ((c', now'), x) ->
          c := c';
          now := now';
          if not !first then Buffer.add_char buf '|';
          first := false;
          (match o with
           | Advance _ -> Buffer.add_string buf ("T" ^ string_of_big now')
           | _ ->
             Buffer.add_string buf (show_out x);
             Buffer.add_char buf '!';
             Buffer.add_string buf (show_dump c'))
        | Prelude.Panic -> raise (Stop "Panic")
        | Prelude.OutOfFuel -> raise (Stop "OutOfFuel")
        | Prelude.Err _ -> raise (Stop "Err"))
      (split_on '|' ops);
    Buffer.contents buf
  with Stop s -> s

let handle (toks : string list) : string =
  match toks with
  | [ "H"; desired; ops ] -> history desired ops
  | _ -> failwith "cache: bad case"
