(* drv_validate.ml -- model side of the "validate" stream (C06).
     V <question> <match_count> <rcode> <answers> <authority> <additional>
          validate_nameserver_response on the response
          Message::from_question(id, q).make_response() with that rcode and those sections
          -> None | Answer|<rrs>|<soa or -> | Cname|<rrs>|<name> | Deleg|<rrs>|<name>|<hostnames, sorted>
     S <question> <match_count> <rcode> <answers> <authority> <additional>
          get_nxdomain_nodata_soa on the same response -> None | Some:<rr>
     Q <question> <udp> <tcp>
          query_nameserver(addr, question, false) against a peer that behaves as told:
            udp = none | <delay ms>~<cut>~<reply>
            tcp = none | refuse | <delay ms>~<declared delta>~<cut>~<reply>
            reply = message token whose id field is a DELTA added to the request's id | x<hex> raw octets
            cut = -1 (whole) or the number of leading octets of the encoded reply that are sent
            declared delta: the TCP length prefix is (octets sent) + delta
          -> None | Some:<message token, id field = reply id - request id> *)
open Vutil
open BinNums
open Vmsg
open WireTypes
open ValidateModel

let split_on c s = String.split_on_char c s

let response_of (q : question) (rcode : string) (an : string) (au : string) (ad : string) : message =
  let r = make_response (from_question (n_of_int 4660) q) in
  { m_header = { r.m_header with h_rcode = n_of_string rcode };
    m_questions = r.m_questions;
    m_answers = Vrr.rrs_of_tok an; m_authority = Vrr.rrs_of_tok au; m_additional = Vrr.rrs_of_tok ad }

let sorted_names (l : NameModel.dname list) : string =
  match List.sort compare (List.map Vrr.name_tok l) with
  | [] -> "_"
  | l -> String.concat ";" l

let show_nsresponse (r : nsresponse) : string =
  match r with
  | NRAnswer (rrs, soa) ->
    "Answer|" ^ Vrr.tok_of_rrs rrs ^ "|" ^ (match soa with Some s -> Vrr.tok_of_rr s | None -> "-")
  | NRCname (rrs, c) -> "Cname|" ^ Vrr.tok_of_rrs rrs ^ "|" ^ Vrr.name_tok c
  | NRDelegation (rrs, d) ->
    "Deleg|" ^ Vrr.tok_of_rrs rrs ^ "|" ^ Vrr.name_tok d.LocalModel.ns_name ^ "|" ^ sorted_names d.LocalModel.ns_hostnames

let request_id = 4660

let rec firstn k l = if k <= 0 then [] else match l with [] -> [] | x :: t -> x :: firstn (k - 1) t

(* octets of a reply: Some bytes, or None when the reply message cannot be encoded *)
let reply_bytes (cut : string) (reply : string) : coq_N list option =
  let whole =
    if String.length reply > 0 && reply.[0] = 'x' then
      Some (fast_bytes_of_hex (String.sub reply 1 (String.length reply - 1)))
    else begin
      let m = msg_of_tok reply in
      let id = (request_id + int_of_n m.m_header.h_id) land 0xFFFF in
      let m = { m with m_header = { m.m_header with h_id = n_of_int id } } in
      match WireModel.encode m with
      | Prelude.Ok bs -> Some bs
      | _ -> None
    end
  in
  match whole with
  | None -> None
  | Some bs -> let c = int_of_string cut in if c < 0 then Some bs else Some (firstn c bs)

let handle (toks : string list) : string =
  match toks with
  | [ "V"; q; mc; rcode; an; au; ad ] ->
    let q = Vrr.question_of_tok q in
    (match validate_nameserver_response q (response_of q rcode an au ad) (n_of_string mc) with
     | Prelude.Ok None -> "None"
     | Prelude.Ok (Some r) -> show_nsresponse r
     | Prelude.Err _ -> "Err"
     | Prelude.Panic -> "Panic"
     | Prelude.OutOfFuel -> "OutOfFuel")
  | [ "S"; q; mc; rcode; an; au; ad ] ->
    let q = Vrr.question_of_tok q in
    show_opt Vrr.tok_of_rr (get_nxdomain_nodata_soa q (response_of q rcode an au ad) (n_of_string mc))
  | [ "Q"; q; udp; tcp ] ->
    let q = Vrr.question_of_tok q in
    let udp =
      match split_on '~' udp with
      | [ "none" ] -> None
      | [ delay; cut; reply ] ->
        (match reply_bytes cut reply with Some bs -> Some (n_of_string delay, bs) | None -> None)
      | _ -> failwith "udp spec"
    in
    let tcp =
      match split_on '~' tcp with
      | [ "none" ] | [ "refuse" ] -> None
      | [ delay; delta; cut; reply ] ->
        (match reply_bytes cut reply with
         | Some bs -> Some ((n_of_string delay, n_of_int (List.length bs + int_of_string delta)), bs)
         | None -> None)
      | _ -> failwith "tcp spec"
    in
    (match GateModel.query_nameserver (n_of_int request_id) q false { GateModel.t_udp = udp; GateModel.t_tcp = tcp } with
     | Prelude.Ok None -> "None"
     | Prelude.Ok (Some m) ->
       let d = (int_of_n m.m_header.h_id - request_id) land 0xFFFF in
       "Some:" ^ tok_of_msg { m with m_header = { m.m_header with h_id = n_of_int d } }
     | Prelude.Err _ -> "Err"
     | Prelude.Panic -> "Panic"
     | Prelude.OutOfFuel -> "OutOfFuel")
  | _ -> failwith "validate: bad case"
