(* vmain.ml -- generic main loop of a model driver: reads case lines
   "<stream> <op> <args...>" on stdin, prints one result line per case. *)
let run (streams : (string * (string list -> string)) list) : unit =
  let out = Buffer.create 65536 in
  (try
     while true do
       let line = input_line stdin in
       if String.length line > 0 && line.[0] <> '#' then begin
         let toks = String.split_on_char ' ' line in
         let r =
           match toks with
           | s :: rest ->
             (match List.assoc_opt s streams with
              | Some h -> (try h rest with
                           | Stack_overflow -> "MODEL-EXN:stack_overflow"
                           | e -> "MODEL-EXN:" ^ Printexc.to_string e)
              | None -> "MODEL-EXN:unknown-stream")
           | [] -> "MODEL-EXN:empty"
         in
         Buffer.add_string out r;
         Buffer.add_char out '\n';
         if Buffer.length out > 60000 then begin print_string (Buffer.contents out); Buffer.clear out end
       end
     done
   with End_of_file -> ());
  print_string (Buffer.contents out)
