let () = Vmain.run [ ("wire", Drv_wire.handle); ("name", Drv_name.handle) ]
