(* vrr.ml -- token syntax for records, questions and messages, shared with
   harness/src/util.rs and vlib/tok.py.
     name   = labels token (hex labels separated by '.', '-' = empty label)
     rdata  = a<u32> | n<name> | s<mname>,<rname>,<serial>,<refresh>,<retry>,<expire>,<minimum>
            | o<hex> | i<name>,<name> | x<pref>,<name> | q<8 u16 as 32 hex digits> | v<prio>,<weight>,<port>,<name>
     rr     = <name>:<type>:<class>:<ttl>:<rdata>
     rrs    = rr;rr;...  ("_" = empty)
     question = <name>:<qtype>:<qclass> *)
open Vutil
open NameModel
open WireTypes

let name_of_tok = Drv_name.name_of_tok
let show_name = Drv_name.show_name
let name_tok (n : dname) : string = tok_of_labels n.labels

let rdata_of_tok (s : string) : rdata =
  let body = String.sub s 1 (String.length s - 1) in
  let parts () = String.split_on_char ',' body in
  match s.[0] with
  | 'a' -> RD_A (n_of_string body)
  | 'n' -> RD_Name (name_of_tok body)
  | 's' ->
    (match parts () with
     | [ m; r; a; b; c; d; e ] ->
       RD_SOA (name_of_tok m, name_of_tok r, n_of_string a, n_of_string b, n_of_string c, n_of_string d, n_of_string e)
     | _ -> failwith "soa token")
  | 'o' -> RD_Octets (bytes_of_hex body)
  | 'i' -> (match parts () with [ r; e ] -> RD_MINFO (name_of_tok r, name_of_tok e) | _ -> failwith "minfo token")
  | 'x' -> (match parts () with [ p; e ] -> RD_MX (n_of_string p, name_of_tok e) | _ -> failwith "mx token")
  | 'q' ->
    let bs = List.map int_of_n (bytes_of_hex body) in
    let rec segs l = match l with a :: b :: t -> n_of_int (256 * a + b) :: segs t | _ -> [] in
    RD_AAAA (segs bs)
  | 'v' ->
    (match parts () with
     | [ p; w; o; t ] -> RD_SRV (n_of_string p, n_of_string w, n_of_string o, name_of_tok t)
     | _ -> failwith "srv token")
  | _ -> failwith "rdata token"

let tok_of_rdata (d : rdata) : string =
  match d with
  | RD_A a -> "a" ^ string_of_n a
  | RD_Name n -> "n" ^ name_tok n
  | RD_SOA (m, r, a, b, c, d, e) ->
    "s" ^ String.concat "," [ name_tok m; name_tok r; string_of_n a; string_of_n b; string_of_n c; string_of_n d; string_of_n e ]
  | RD_Octets os -> "o" ^ hex_of_bytes os
  | RD_MINFO (r, e) -> "i" ^ name_tok r ^ "," ^ name_tok e
  | RD_MX (p, e) -> "x" ^ string_of_n p ^ "," ^ name_tok e
  | RD_AAAA segs -> "q" ^ String.concat "" (List.map (fun s -> Printf.sprintf "%04x" (int_of_n s)) segs)
  | RD_SRV (p, w, o, t) -> "v" ^ String.concat "," [ string_of_n p; string_of_n w; string_of_n o; name_tok t ]

let rr_of_tok (s : string) : rr =
  match String.split_on_char ':' s with
  | [ n; t; c; ttl; d ] ->
    { rr_name = name_of_tok n; rr_type = n_of_string t; rr_class = n_of_string c; rr_ttl = n_of_string ttl; rr_data = rdata_of_tok d }
  | _ -> failwith ("rr token: " ^ s)

let tok_of_rr (r : rr) : string =
  String.concat ":" [ name_tok r.rr_name; string_of_n r.rr_type; string_of_n r.rr_class; string_of_n r.rr_ttl; tok_of_rdata r.rr_data ]

let rrs_of_tok (s : string) : rr list = if s = "_" then [] else List.map rr_of_tok (String.split_on_char ';' s)
let tok_of_rrs (l : rr list) : string = if l = [] then "_" else String.concat ";" (List.map tok_of_rr l)

let question_of_tok (s : string) : question =
  match String.split_on_char ':' s with
  | [ n; t; c ] -> { q_name = name_of_tok n; q_type = n_of_string t; q_class = n_of_string c }
  | _ -> failwith "question token"

let tok_of_question (q : question) : string =
  String.concat ":" [ name_tok q.q_name; string_of_n q.q_type; string_of_n q.q_class ]
