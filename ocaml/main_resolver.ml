let () = Vmain.run [ ("resolver", Drv_resolver.handle) ]
