let () = Vmain.run [ ("zone", Drv_zone.handle) ]
