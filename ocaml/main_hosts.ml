let () = Vmain.run [ ("hosts", Drv_hosts.handle) ]
