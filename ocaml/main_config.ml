let () = Vmain.run [ ("config", Drv_config.handle) ]
