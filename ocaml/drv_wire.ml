(* drv_wire.ml -- model side of the "wire" stream (C03, C04).
     DEC <hex>      decode                      -> Ok:<message>#<sum of name lens> | Err:<Kind>:<id or ->
     ENC <message>  encode                      -> Ok:<hex> | Err:CounterTooLarge:<n>
     RT <message>   encode then decode          -> eq:<len> | neq:<len>:<what came back> | Err:CounterTooLarge:<n>
     REENC <hex>    decode, encode, decode, encode
                                                -> Err:... (first decode) | Ok:<eq|neq>:<stable|unstable>:<len>:<fnv32 of the re-encoding>
     STACK2M <hex>  as DEC (the impl side decodes on a 2 MiB thread) *)
open Vutil
open Vmsg
open WireModel

let show_werr ((k, id) : werr) : string =
  "Err:" ^ Drv_name.werr_name k ^ ":" ^ (match werr_id (k, id) with Some i -> string_of_n i | None -> "-")

(* serr has one constructor with one argument: extraction erases it to its argument *)
let show_serr (e : serr) : string = "Err:CounterTooLarge:" ^ string_of_n e

let show_decoded (r : (werr, WireTypes.message) Prelude.res) : string =
  match r with
  | Prelude.Ok m -> "Ok:" ^ tok_of_msg m ^ "#" ^ string_of_int (msg_lens m)
  | Prelude.Err e -> show_werr e
  | Prelude.Panic -> "Panic"
  | Prelude.OutOfFuel -> "OutOfFuel"

let handle (toks : string list) : string =
  match toks with
  | [ "DEC"; h ] | [ "STACK2M"; h ] -> show_decoded (decode (fast_bytes_of_hex h))
  | [ "ENC"; t ] ->
    (match encode (msg_of_tok t) with
     | Prelude.Ok bs -> "Ok:" ^ fast_hex_of_bytes bs
     | Prelude.Err e -> show_serr e
     | Prelude.Panic -> "Panic"
     | Prelude.OutOfFuel -> "OutOfFuel")
  | [ "RT"; t ] ->
    let m = msg_of_tok t in
    (match encode m with
     | Prelude.Ok bs ->
       let len = string_of_int (List.length bs) in
       (match decode bs with
        | Prelude.Ok m' when m' = m -> "eq:" ^ len
        | r -> "neq:" ^ len ^ ":" ^ show_decoded r)
     | Prelude.Err e -> show_serr e
     | Prelude.Panic -> "Panic"
     | Prelude.OutOfFuel -> "OutOfFuel")
  | [ "REENC"; h ] ->
    (match decode (fast_bytes_of_hex h) with
     | Prelude.Ok m ->
       (match encode m with
        | Prelude.Ok bs ->
          let again = decode bs in
          let eq = (match again with Prelude.Ok m' -> m' = m | _ -> false) in
          let stable = (match again with
              | Prelude.Ok m' -> (match encode m' with Prelude.Ok bs' -> bs' = bs | _ -> false)
              | _ -> false) in
          Printf.sprintf "Ok:%s:%s:%d:%08x" (if eq then "eq" else "neq") (if stable then "stable" else "unstable")
            (List.length bs) (fnv32 bs)
        | Prelude.Err e -> "Ok:" ^ show_serr e
        | Prelude.Panic -> "Panic"
        | Prelude.OutOfFuel -> "OutOfFuel")
     | r -> show_decoded r)
  | _ -> failwith "wire: bad case"
