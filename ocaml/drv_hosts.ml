(* drv_hosts.ml -- model side of the "hosts" stream (C14).

   Text arguments are decimal scalar-value lists (Vutil.nums_of_tok).

   case:   hosts IP <text>          IpAddr::from_str and Display of the value
           hosts L <text>           str::lines
           hosts P <text>           Hosts::deserialise
           hosts S <text>           deserialise, then serialise
           hosts RT <text>          deserialise, serialise, deserialise again; same hosts?
           hosts Z <text>           deserialise, Zone::from, dump, TryFrom<Zone>, from_zone_lossy,
                                    zone.resolve(name, A / AAAA) for every mapped name
           hosts ZX <text> <ops>    as Z, but further records (ops as in drv_zone.ml: I~<rr> | W~<rr>,
                                    '|'-separated) are inserted into the zone before converting back
           hosts M <text1> <text2>  deserialise both, merge the second into the first
   result: ip     = 4:<u32> | 6:<32 hex digits>
           hosts  = v4=<name/len>=<u32>;...|v6=<name/len>=<hex>;...   ("_" = empty), sorted by name token
           error  = Err:ExpectedAscii:<c> | Err:CouldNotParseAddress:<nums> | Err:CouldNotParseName:<nums>
           IP:  None | Some:<ip>/<display as nums>
           L:   <nums>|<nums>...  ("-" = no line)
           P:   Ok:<hosts> | <error>
           S:   Ok:<nums> | <error>
           RT:  Ok:same:<hosts> | Ok:diff:<hosts>!<second result> | <error>
           Z:   R<dump>#W<dump>#S<->#X<apex/len>#T<Ok:hosts|Err:kind>#L<hosts>#Q<res>|...   | <error>
           ZX:  T<..>#L<hosts> | <error>
           M:   Ok:<hosts> | <error>
   A Panic outcome of any step makes the whole result "Panic". *)
open Vutil
open NameModel
open WireTypes
open ZoneModel
open IpModel
open HostsModel

exception Model_panic
exception Model_err of string

let hex4 (segs : BinNums.coq_N list) : string =
  String.concat "" (List.map (fun s -> Printf.sprintf "%04x" (int_of_n s)) segs)

let show_ipv (a : ipaddr) : string =
  match a with
  | V4 x -> "4:" ^ string_of_n x
  | V6 g -> "6:" ^ hex4 g

let show_map (f : 'a -> string) (m : (dname * 'a) list) : string =
  if m = [] then "_"
  else begin
    let l = List.map (fun (n, a) -> (Drv_name.show_name n, f a)) m in
    let l = List.sort (fun (a, _) (b, _) -> compare a b) l in
    String.concat ";" (List.map (fun (n, a) -> n ^ "=" ^ a) l)
  end

let show_hosts (h : hosts) : string = "v4=" ^ show_map string_of_n h.h_v4 ^ "|v6=" ^ show_map hex4 h.h_v6

let show_herr (e : herr) : string =
  match e with
  | ExpectedAscii c -> "Err:ExpectedAscii:" ^ string_of_n c
  | CouldNotParseAddress s -> "Err:CouldNotParseAddress:" ^ tok_of_nums s
  | CouldNotParseName s -> "Err:CouldNotParseName:" ^ tok_of_nums s

let parse (t : string) : hosts =
  match deserialise (nums_of_tok t) with
  | Prelude.Ok h -> h
  | Prelude.Err e -> raise (Model_err (show_herr e))
  | Prelude.Panic -> raise Model_panic
  | Prelude.OutOfFuel -> raise (Model_err "OutOfFuel")

let unres = function
  | Prelude.Ok x -> x
  | _ -> raise Model_panic

(* the same printing as drv_zone.ml *)
let stable_by_type (key : 'a -> int) (l : 'a list) : 'a list = List.stable_sort (fun a b -> compare (key a) (key b)) l

let show_res (r : zresult) : string =
  match r with
  | ZAnswer rrs -> "A" ^ Vrr.tok_of_rrs (stable_by_type (fun r -> int_of_n r.rr_type) rrs)
  | ZCname (c, r) -> "C" ^ Vrr.name_tok c ^ "=" ^ Vrr.tok_of_rr r
  | ZDelegation rrs ->
    "D" ^ (match rrs with r :: _ -> Vrr.show_name r.rr_name | [] -> "_") ^ "=" ^ Vrr.tok_of_rrs rrs
  | ZNameError -> "N"

let show_zrec (z : zrec) : string =
  String.concat ":" [ string_of_n z.zr_type; string_of_n z.zr_ttl; Vrr.tok_of_rdata z.zr_data ]

let show_dump (l : (dname * zrec list) list) : string =
  if l = [] then "_"
  else begin
    let l = List.map (fun (n, zs) -> (Vrr.show_name n, stable_by_type (fun z -> int_of_n z.zr_type) zs)) l in
    let l = List.sort (fun (a, _) (b, _) -> compare a b) l in
    String.concat "+" (List.map (fun (n, zs) -> n ^ "=" ^ String.concat ";" (List.map show_zrec zs)) l)
  end

let show_back (z : zone) : string =
  let t =
    match hosts_try_from z with
    | Prelude.Ok h -> "Ok:" ^ show_hosts h
    | Prelude.Err HasWildcardRecords -> "Err:HasWildcardRecords"
    | Prelude.Err HasRecordTypesOtherThanA -> "Err:HasRecordTypesOtherThanA"
    | _ -> raise Model_panic
  in
  let l = match from_zone_lossy z with Prelude.Ok h -> show_hosts h | _ -> raise Model_panic in
  "T" ^ t ^ "#L" ^ l

let sorted_keys (h : hosts) : dname list =
  let ks = List.map fst h.h_v4 @ List.map fst h.h_v6 in
  let ks = List.map (fun n -> (Drv_name.show_name n, n)) ks in
  let ks = List.sort_uniq (fun (a, _) (b, _) -> compare a b) ks in
  List.map snd ks

let guard (f : unit -> string) : string =
  try f () with
  | Model_panic -> "Panic"
  | Model_err e -> e

let handle (toks : string list) : string =
  match toks with
  | [ "IP"; t ] ->
    (match parse_ip (nums_of_tok t) with
     | None -> "None"
     | Some a -> "Some:" ^ show_ipv a ^ "/" ^ tok_of_nums (show_ip a))
  | [ "L"; t ] ->
    let ls = str_lines (nums_of_tok t) in
    if ls = [] then "-" else String.concat "|" (List.map tok_of_nums ls)
  | [ "P"; t ] -> guard (fun () -> "Ok:" ^ show_hosts (parse t))
  | [ "S"; t ] -> guard (fun () -> "Ok:" ^ tok_of_nums (serialise (parse t)))
  | [ "RT"; t ] ->
    guard (fun () ->
        let h = parse t in
        let d = show_hosts h in
        let again =
          match deserialise (serialise h) with
          | Prelude.Ok h2 -> "Ok:" ^ show_hosts h2
          | Prelude.Err e -> show_herr e
          | _ -> raise Model_panic
        in
        if again = "Ok:" ^ d then "Ok:same:" ^ d else "Ok:diff:" ^ d ^ "!" ^ again)
  | [ "Z"; t ] ->
    guard (fun () ->
        let h = parse t in
        let z = unres (hosts_to_zone h) in
        let qs =
          List.concat_map
            (fun n ->
              List.map
                (fun qt ->
                  match zone_resolve z n (n_of_int qt) with
                  | None -> "X"
                  | Some r -> show_res (unres r))
                [ 1; 28 ])
            (sorted_keys h)
        in
        "R" ^ show_dump (zone_all_records z)
        ^ "#W" ^ show_dump (zone_all_wildcard_records z)
        ^ "#S" ^ (match z.z_soa with Some _ -> "soa" | None -> "-")
        ^ "#X" ^ Vrr.show_name z.z_apex
        ^ "#" ^ show_back z
        ^ "#Q" ^ (if qs = [] then "_" else String.concat "|" qs))
  | [ "ZX"; t; ops_t ] ->
    guard (fun () ->
        let h = parse t in
        let z = ref (unres (hosts_to_zone h)) in
        let ops = if ops_t = "_" then [] else String.split_on_char '|' ops_t in
        List.iter
          (fun o ->
            match String.split_on_char '~' o with
            | [ k; rr_t ] when k = "I" || k = "W" ->
              let r = Vrr.rr_of_tok rr_t in
              z := unres (zone_insert (k = "W") !z r.rr_name r.rr_type r.rr_data r.rr_ttl)
            | _ -> failwith ("hosts: bad op " ^ o))
          ops;
        show_back !z)
  | [ "M"; t1; t2 ] ->
    guard (fun () ->
        let a = parse t1 in
        let b = parse t2 in
        "Ok:" ^ show_hosts (hosts_merge a b))
  | _ -> failwith "hosts: bad case"
