(* drv_zone.ml -- model side of the "zone" stream (C02; merge part of C12).

   case:    zone Z <apex> <soa|-> <ops> <queries>
     apex    = name token
     soa     = SOA rdata token (s<mname>,<rname>,<serial>,<refresh>,<retry>,<expire>,<minimum>) or "-"
     ops     = "_" or op|op|...
       op    = I~<rr>       Zone::insert(rr.name, rr.rtype_with_data, rr.ttl)
             | W~<rr>       Zone::insert_wildcard(...)
             | M~<soa|->    the zone built so far is finished; a second zone with the same apex
                            and this SOA is started (the following ops go into it); at the end
                            (or at the next M) it is merged into the first: first.merge(second)
     queries = "_" or <name>~<qtype>|...
   result:  <res>|<res>|...#R<dump>#W<dump>#S<soa rdata|->
     res   = A<rrs>  (Answer; type groups stable-sorted by type code: their order is HashMap
                      iteration order, the order inside a group is Vec order and is kept)
           | C<cname>=<rr> | D<owner/len>=<rrs> | N (NameError) | X (name not under the apex)
     dump  = "_" or <name/len>=<type>:<ttl>:<rdata>;...+<name/len>=...   all_records /
             all_wildcard_records, names sorted by token, records stable-sorted by type code
   A Panic outcome of any step makes the whole result "Panic".

   The flat specification (Zone/ZoneFlat.v) is run on the same case: when the zone satisfies
   deviation D1 (no_occlusionb) and a lookup result is not equivalent to flat_resolve's, the
   result carries the suffix "!SPEC<flat result>", which the implementation never prints. *)
open Vutil
open ZoneModel
open ZoneFlat
open WireTypes

let split_on = String.split_on_char

exception Model_panic

let soa_of_tok (s : string) : soa option =
  if s = "-" then None
  else
    match Vrr.rdata_of_tok s with
    | RD_SOA (m, r, a, b, c, d, e) ->
      Some { soa_mname = m; soa_rname = r; soa_serial = a; soa_refresh = b; soa_retry = c; soa_expire = d; soa_minimum = e }
    | _ -> failwith "zone: soa token"

let stable_by_type (key : 'a -> int) (l : 'a list) : 'a list = List.stable_sort (fun a b -> compare (key a) (key b)) l

let show_res (r : zresult) : string =
  match r with
  | ZAnswer rrs -> "A" ^ Vrr.tok_of_rrs (stable_by_type (fun r -> int_of_n r.rr_type) rrs)
  | ZCname (c, r) -> "C" ^ Vrr.name_tok c ^ "=" ^ Vrr.tok_of_rr r
  | ZDelegation rrs ->
    "D" ^ (match rrs with r :: _ -> Vrr.show_name r.rr_name | [] -> "_") ^ "=" ^ Vrr.tok_of_rrs rrs
  | ZNameError -> "N"

let show_zrec (z : zrec) : string =
  String.concat ":" [ string_of_n z.zr_type; string_of_n z.zr_ttl; Vrr.tok_of_rdata z.zr_data ]

let show_dump (l : (NameModel.dname * zrec list) list) : string =
  if l = [] then "_"
  else begin
    let l = List.map (fun (n, zs) -> (Vrr.show_name n, stable_by_type (fun z -> int_of_n z.zr_type) zs)) l in
    let l = List.sort (fun (a, _) (b, _) -> compare a b) l in
    String.concat "+" (List.map (fun (n, zs) -> n ^ "=" ^ String.concat ";" (List.map show_zrec zs)) l)
  end

let unres = function
  | Prelude.Ok x -> x
  | _ -> raise Model_panic

let handle (toks : string list) : string =
  match toks with
  | [ "Z"; apex_t; soa_t; ops_t; qs_t ] ->
    (try
       let apex = Vrr.name_of_tok apex_t in
       let apexl = apex.NameModel.labels in
       let ops = if ops_t = "_" then [] else split_on '|' ops_t in
       (* state: merged-so-far (model zone, flat zone) option, current zone, current flat ops (reversed), current soa *)
       let acc = ref None in
       let cur = ref (zone_new apex (soa_of_tok soa_t)) in
       let cur_soa = ref (soa_of_tok soa_t) in
       let cur_ops = ref [] in
       let finish () =
         let fcur = flat_of_ops apex !cur_soa (List.rev !cur_ops) in
         match !acc with
         | None -> acc := Some (!cur, fcur)
         | Some (z, f) ->
           (match zone_merge z !cur with
            | Some m -> acc := Some (m, fz_merge f fcur (!cur_soa <> None))
            | None -> failwith "zone: merge apex mismatch")
       in
       List.iter
         (fun o ->
           match split_on '~' o with
           | [ k; rr_t ] when k = "I" || k = "W" ->
             let r = Vrr.rr_of_tok rr_t in
             let w = k = "W" in
             cur := unres (zone_insert w !cur r.rr_name r.rr_type r.rr_data r.rr_ttl);
             cur_ops := { op_wild = w; op_name = r.rr_name; op_type = r.rr_type; op_data = r.rr_data; op_ttl = r.rr_ttl } :: !cur_ops
           | [ "M"; s ] ->
             finish ();
             cur_soa := soa_of_tok s;
             cur := zone_new apex !cur_soa;
             cur_ops := []
           | _ -> failwith ("zone: bad op " ^ o))
         ops;
       finish ();
       let z, fz = match !acc with Some x -> x | None -> failwith "zone: no zone" in
       let d1 = no_occlusionb fz in
       let qs = if qs_t = "_" then [] else split_on '|' qs_t in
       let results =
         List.map
           (fun q ->
             match split_on '~' q with
             | [ n; qt ] ->
               let name = Vrr.name_of_tok n in
               let qtype = n_of_string qt in
               (match zone_resolve z name qtype with
                | None -> "X"
                | Some r ->
                  let r = unres r in
                  let s = show_res r in
                  if d1 then
                    (match rel_path apexl name with
                     | Some p ->
                       let f = flat_resolve apexl fz name p qtype in
                       if zres_equivb r f then s else s ^ "!SPEC" ^ show_res f
                     | None -> s ^ "!SPEC-no-path")
                  else s)
             | _ -> failwith ("zone: bad query " ^ q))
           qs
       in
       String.concat "|" results
       ^ "#R" ^ show_dump (zone_all_records z)
       ^ "#W" ^ show_dump (zone_all_wildcard_records z)
       ^ "#S" ^ (match z.z_soa with Some s -> Vrr.tok_of_rdata (soa_to_rdata s) | None -> "-")
     with Model_panic -> "Panic")
  | _ -> failwith "zone: bad case"
