let () = Vmain.run [ ("zonefile", Drv_zonefile.handle) ]
