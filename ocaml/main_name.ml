let () = Vmain.run [ ("name", Drv_name.handle) ]
