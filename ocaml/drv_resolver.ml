(* drv_resolver.ml -- model side of the "resolver" stream (C07, C08, C18; network-mode
   clauses of C01/C10; reusable by C06).

   ---- case ----
     resolver R <mode> <port> <zones> <cache> <questions> <table> <faults> <expect>
       mode      = a                         authoritative-only   resolve(false, ..)
                 | r4 | rp4 | rp6 | r6       recursive, ProtocolMode OnlyV4 / PreferV4 / PreferV6 / OnlyV6
                 | f<ip>@<port>              forwarding to that address
       ip        = a<u32> | q<32 hex digits>           (IPv4 / IPv6; same syntax as A / AAAA rdata)
       port      = upstream_dns_port (decimal)
       zones     = zone|zone|...   ("_" = none)        as in the "local" stream:
         zone    = <apex name>~<soa>~<ops>     soa = N | s<mname>,<rname>,<serial>,<refresh>,<retry>,<expire>,<minimum>
         ops     = op+op+... ("_" = none)      op = I<rr> (Zone::insert) | W<rr> (Zone::insert_wildcard)
       cache     = <rrs>                     SharedCache::insert_all before the first question (clock fixed at 0)
       questions = <question>|<question>|... resolved in this order on one SharedCache
       table     = entry+entry+... ("_" = empty)       the universe, as replies precomputed by Universe.serve
         entry   = <ip>,<ip>,...=<question>=<hex of the reply message, id 0>
                   a server at an address not in the table, or asked a question not in it, never replies
       faults    = <n>:<fault>+...  ("_" = none)       fault for exchange number n (0-based over the whole case;
                                                       the TCP connection attempt and its request share a number)
         fault   = drop | delay<ms> | garbage<hex> | trunc<n> | truncopen<n> | prefix<n> | wrongid | tc
                 | rcode<n> | noqr | refuse            (semantics: coq/Resolver/Universe.v reply_of)
       expect    = anything without a space; ignored by both drivers (the generators keep what the
                   oracles need there: expected answers from AUTH, flags)

   ---- result ----
     <per-question>|<per-question>|...#<cache dump>
       per-question = <resolved>!<log>!<elapsed ms>
       resolved  = A<rrs>/<soa rr> | X<soa rr> | N<rrs>/<soa rr or None> | E<error> | Panic | OutOfFuel
                   (error = timeout | reclimit | dup:<question> | dead:<question> | nons:<apex>,<domain>
                    | mismatch:<query>,<result>);  for QTYPE 255 the RRs are stable-sorted by type code
       log       = event;event;...  ("_" = none), one event per call of the mock handler:
         event   = <ms since start>,<n>,U,<ip>@<port>,<question>,<rd 0/1>,<reply>      UDP datagram
                 | <ms>,<n>,C,<ip>@<port>,<ok|refused>                               TCP connection attempt
                 | <ms>,<n>,T,<ip>@<port>,<question>,<rd>,<reply>                      TCP request
         reply   = refused | none/<delay>/<close 0/1> | <len>.<fnv32 hex>/<delay>/<close>
                   the hash is over the bytes sent with the id octets zeroed (0,1 for UDP; 2,3 for TCP)
       cache dump = <name>=<type>=<rdata>@<ttl>&<rdata>@<ttl>...+...  ("_" = empty), sorted by (name token, type);
                    the order inside one (name, type) is Vec order and is compared

   ---- other ops (model only; used by the generators) ----
     resolver SERVE <universe> <ip>,<question>+<ip>,<question>+...
        -> <hex>;<hex>;...       Universe.serve, encoded; "-" = nobody listens there; "!" = cannot encode
     resolver AUTH <universe> <question>|<question>|...
        -> C<consistentb 0/1>#<defined 0/1>/<rrs>/<soa rr or None>|...       Universe.auth_answer
       universe  = <uzones>!<servers>
         uzone   = <apex>~<soa rr>~<rrs>~<cut rrs>~<glue rrs>   joined by '|'
         servers = <ip>=<apex>,<apex>,...  joined by '+' *)
open Vutil
open WireTypes
open ZoneModel
open LocalModel
open TransportModel
open RecursiveModel
open ForwardingModel
open Universe

let split_on = String.split_on_char

exception Stop of string

let unres = function
  | Prelude.Ok x -> x
  | Prelude.Panic -> raise (Stop "Panic")
  | Prelude.OutOfFuel -> raise (Stop "OutOfFuel")
  | Prelude.Err _ -> raise (Stop "Err")

(* ---- zones (syntax of drv_local.ml) ---- *)
let soa_of_tok (s : string) : soa option =
  if s = "N" then None
  else
    match Vrr.rdata_of_tok s with
    | RD_SOA (m, r, a, b, c, d, e) ->
      Some { soa_mname = m; soa_rname = r; soa_serial = a; soa_refresh = b; soa_retry = c; soa_expire = d; soa_minimum = e }
    | _ -> failwith "resolver: soa token"

let zone_of_tok (s : string) : zone =
  match split_on '~' s with
  | [ apex; soa; ops ] ->
    let z = ref (zone_new (Vrr.name_of_tok apex) (soa_of_tok soa)) in
    if ops <> "_" then
      List.iter
        (fun op ->
          let wildcard = match op.[0] with 'I' -> false | 'W' -> true | _ -> failwith "resolver: bad op" in
          let r = Vrr.rr_of_tok (String.sub op 1 (String.length op - 1)) in
          z := unres (zone_insert wildcard !z r.rr_name r.rr_type r.rr_data r.rr_ttl))
        (split_on '+' ops);
    !z
  | _ -> failwith "resolver: bad zone"

(* ---- addresses ---- *)
let ip_of_tok (s : string) : ip =
  match Vrr.rdata_of_tok s with
  | RD_A a -> Datatypes.Coq_inl a
  | RD_AAAA segs -> Datatypes.Coq_inr segs
  | _ -> failwith "resolver: ip token"

let tok_of_ip (a : ip) : string =
  match a with
  | Datatypes.Coq_inl x -> Vrr.tok_of_rdata (RD_A x)
  | Datatypes.Coq_inr segs -> Vrr.tok_of_rdata (RD_AAAA segs)

let addr_of_tok (s : string) : addr =
  match split_on '@' s with
  | [ i; p ] -> (ip_of_tok i, n_of_string p)
  | _ -> failwith "resolver: addr token"

let tok_of_addr ((i, p) : addr) : string = tok_of_ip i ^ "@" ^ string_of_n p

let mode_of_tok (s : string) : resolver_mode =
  match s with
  | "a" -> ModeAuthoritative
  | "r4" -> ModeRecursive OnlyV4
  | "rp4" -> ModeRecursive PreferV4
  | "rp6" -> ModeRecursive PreferV6
  | "r6" -> ModeRecursive OnlyV6
  | _ ->
    if String.length s > 1 && s.[0] = 'f' then ModeForwarding (addr_of_tok (String.sub s 1 (String.length s - 1)))
    else failwith "resolver: mode token"

(* ---- table and faults ---- *)
let table_of_tok (s : string) : table =
  if s = "_" then []
  else
    List.concat_map
      (fun e ->
        match split_on '=' e with
        | [ ips; q; hex ] ->
          let q = Vrr.question_of_tok q in
          let bs = Vmsg.fast_bytes_of_hex hex in
          List.map (fun i -> ((ip_of_tok i, q), bs)) (split_on ',' ips)
        | _ -> failwith "resolver: table entry")
      (split_on '+' s)

let starts_with (p : string) (s : string) : bool =
  String.length s >= String.length p && String.sub s 0 (String.length p) = p
let after (p : string) (s : string) : string = String.sub s (String.length p) (String.length s - String.length p)

let fault_of_tok (s : string) : fault =
  if s = "drop" then FDrop
  else if s = "wrongid" then FWrongId
  else if s = "tc" then FTc
  else if s = "noqr" then FNoQr
  else if s = "refuse" then FRefuse
  else if starts_with "delay" s then FDelay (n_of_string (after "delay" s))
  else if starts_with "garbage" s then FGarbage (bytes_of_hex (after "garbage" s))
  else if starts_with "truncopen" s then FTruncOpen (n_of_string (after "truncopen" s))
  else if starts_with "trunc" s then FTrunc (n_of_string (after "trunc" s))
  else if starts_with "prefix" s then FPrefix (n_of_string (after "prefix" s))
  else if starts_with "rcode" s then FRcode (n_of_string (after "rcode" s))
  else failwith ("resolver: fault token " ^ s)

let plan_of_tok (s : string) : fault_plan =
  if s = "_" then []
  else
    List.map
      (fun e ->
        match split_on ':' e with
        | [ n; f ] -> (nat_of_int (int_of_string n), fault_of_tok f)
        | _ -> failwith "resolver: fault entry")
      (split_on '+' s)

(* ---- printing ---- *)
let show_rrs (qtype : int) (rrs : rr list) : string =
  let rrs = if qtype = 255 then List.stable_sort (fun a b -> compare (int_of_n a.rr_type) (int_of_n b.rr_type)) rrs else rrs in
  Vrr.tok_of_rrs rrs

let show_resolved qt (r : resolved) : string =
  match r with
  | Authoritative (rrs, soa) -> "A" ^ show_rrs qt rrs ^ "/" ^ Vrr.tok_of_rr soa
  | AuthoritativeNameError soa -> "X" ^ Vrr.tok_of_rr soa
  | NonAuthoritative (rrs, soa) ->
    "N" ^ show_rrs qt rrs ^ "/" ^ (match soa with Some s -> Vrr.tok_of_rr s | None -> "None")

let show_error (e : rerror) : string =
  match e with
  | ETimeout -> "Etimeout"
  | ERecursionLimit -> "Ereclimit"
  | EDuplicateQuestion q -> "Edup:" ^ Vrr.tok_of_question q
  | EDeadEnd q -> "Edead:" ^ Vrr.tok_of_question q
  | ELocalDelegationMissingNS (a, d) -> "Enons:" ^ Vrr.name_tok a ^ "," ^ Vrr.name_tok d
  | ECacheTypeMismatch (q, r) -> "Emismatch:" ^ string_of_n q ^ "," ^ string_of_n r

let show_res f = function
  | Prelude.Ok x -> f x
  | Prelude.Err e -> show_error e
  | Prelude.Panic -> "Panic"
  | Prelude.OutOfFuel -> "OutOfFuel"

let zero_at (i : int) (l : BinNums.coq_N list) : BinNums.coq_N list =
  List.mapi (fun k x -> if k = i || k = i + 1 then BinNums.N0 else x) l

let show_reply (tcp : bool) (r : treply) : string =
  if r.t_refuse then "refused"
  else
    (match r.t_bytes with
     | None -> "none"
     | Some bs ->
       let z = zero_at (if tcp then 2 else 0) bs in
       Printf.sprintf "%d.%08x" (List.length bs) (Vmsg.fnv32 z))
    ^ "/" ^ string_of_n r.t_delay_ms ^ "/" ^ (if r.t_close then "1" else "0")

let show_event (x : exchange) : string =
  let head k = String.concat "," [ string_of_n x.x_time; string_of_int (int_of_nat x.x_num); k; tok_of_addr x.x_addr ] in
  match x.x_kind with
  | KUdp -> String.concat "," [ head "U"; Vrr.tok_of_question x.x_question; (if x.x_rd then "1" else "0"); show_reply false x.x_reply ]
  | KTcpConnect -> head "C" ^ "," ^ (if x.x_reply.t_refuse then "refused" else "ok")
  | KTcp -> String.concat "," [ head "T"; Vrr.tok_of_question x.x_question; (if x.x_rd then "1" else "0"); show_reply true x.x_reply ]

let show_log (l : exchange list) : string = if l = [] then "_" else String.concat ";" (List.map show_event l)

let show_cache (c : scache) : string =
  let entries =
    List.filter_map
      (fun (((name : NameModel.dname), ty), vals) ->
        if vals = [] then None
        else
          Some
            ( (Vrr.name_tok name, int_of_n ty),
              String.concat "&" (List.map (fun (d, ttl) -> Vrr.tok_of_rdata d ^ "@" ^ string_of_n ttl) vals) ))
      c
  in
  let entries = List.sort (fun (a, _) (b, _) -> compare a b) entries in
  if entries = [] then "_"
  else String.concat "+" (List.map (fun ((n, t), v) -> n ^ "=" ^ string_of_int t ^ "=" ^ v) entries)

(* ---- R ---- *)
let run mode port zones cache questions table faults : string =
  try
    let mode = mode_of_tok mode in
    let port = n_of_string port in
    let zs =
      if zones = "_" then []
      else List.fold_left (fun zs tok -> zones_insert zs (zone_of_tok tok)) [] (split_on '|' zones)
    in
    let c0 = sc_insert_all sc_empty (Vrr.rrs_of_tok cache) in
    let o = table_oracle (table_of_tok table) (plan_of_tok faults) in
    let st = ref (c0, tstate_init) in
    let outs =
      List.map
        (fun qtok ->
          let q = Vrr.question_of_tok qtok in
          let qt = int_of_n q.q_type in
          let c, ts = !st in
          let r, (c', ts') = resolve_simple mode port zs o coq_RESOLVER_FUEL q (c, tstate_next ts) in
          st := (c', ts');
          String.concat "!" [ show_res (show_resolved qt) r; show_log (ts_log ts'); string_of_n ts'.ts_elapsed ])
        (split_on '|' questions)
    in
    String.concat "|" outs ^ "#" ^ show_cache (fst !st)
  with Stop s -> s

(* ---- SERVE / AUTH ---- *)
let rrs_tok = Vrr.rrs_of_tok

let universe_of_tok (s : string) : universe =
  match split_on '!' s with
  | [ zs; servers ] ->
    let zone t =
      match split_on '~' t with
      | [ apex; soa; rrs; cuts; glue ] ->
        { uz_apex = Vrr.name_of_tok apex; uz_soa = Vrr.rr_of_tok soa; uz_rrs = rrs_tok rrs; uz_cuts = rrs_tok cuts; uz_glue = rrs_tok glue }
      | _ -> failwith "resolver: uzone"
    in
    let server t =
      match split_on '=' t with
      | [ i; apexes ] -> (ip_of_tok i, List.map Vrr.name_of_tok (split_on ',' apexes))
      | _ -> failwith "resolver: server"
    in
    { u_zones = (if zs = "_" then [] else List.map zone (split_on '|' zs));
      u_servers = (if servers = "_" then [] else List.map server (split_on '+' servers)) }
  | _ -> failwith "resolver: universe"

let serve_op (u : string) (queries : string) : string =
  let u = universe_of_tok u in
  String.concat ";"
    (List.map
       (fun t ->
         match split_on ',' t with
         | [ i; q ] ->
           (match serve u (ip_of_tok i) (Vrr.question_of_tok q) with
            | None -> "-"
            | Some m -> (match WireModel.encode m with Prelude.Ok bs -> Vmsg.fast_hex_of_bytes bs | _ -> "!"))
         | _ -> failwith "resolver: serve query")
       (split_on '+' queries))

let auth_op (u : string) (questions : string) : string =
  let u = universe_of_tok u in
  let one t =
    let q = Vrr.question_of_tok t in
    let a = auth_answer u q in
    String.concat "/"
      [ (if a.aa_defined then "1" else "0"); Vrr.tok_of_rrs a.aa_rrs;
        (match a.aa_soa with Some s -> Vrr.tok_of_rr s | None -> "None") ]
  in
  "C" ^ (if consistentb u then "1" else "0") ^ "#" ^ String.concat "|" (List.map one (split_on '|' questions))

let handle (toks : string list) : string =
  match toks with
  | [ "R"; mode; port; zones; cache; questions; table; faults; _expect ] -> run mode port zones cache questions table faults
  | [ "SERVE"; u; queries ] -> serve_op u queries
  | [ "AUTH"; u; questions ] -> auth_op u questions
  | _ -> failwith "resolver: bad case"
