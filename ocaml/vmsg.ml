(* vmsg.ml -- token syntax for whole messages, on top of vrr.ml; shared with
   harness/src/msg.rs and vlib/msgtok.py.
     header  = <id>,<qr>,<opcode>,<aa>,<tc>,<rd>,<ra>,<rcode>      (decimal; flags 0/1)
     message = <header>|<questions>|<answers>|<authority>|<additional>
     questions = question;question;...  ("_" = empty), sections = rrs of vrr.ml
   Also linear-time hex helpers for 64 KiB inputs. *)
open Vutil
open BinNums
open WireTypes

let split_bar (s : string) : string list = String.split_on_char '|' s

let bool_of_tok s = match s with "0" -> false | "1" -> true | _ -> failwith "flag token"
let tok_of_bool b = if b then "1" else "0"

let header_of_tok (s : string) : header =
  match String.split_on_char ',' s with
  | [ id; qr; op; aa; tc; rd; ra; rc ] ->
    { h_id = n_of_string id; h_qr = bool_of_tok qr; h_opcode = n_of_string op; h_aa = bool_of_tok aa;
      h_tc = bool_of_tok tc; h_rd = bool_of_tok rd; h_ra = bool_of_tok ra; h_rcode = n_of_string rc }
  | _ -> failwith "header token"

let tok_of_header (h : header) : string =
  String.concat ","
    [ string_of_n h.h_id; tok_of_bool h.h_qr; string_of_n h.h_opcode; tok_of_bool h.h_aa; tok_of_bool h.h_tc;
      tok_of_bool h.h_rd; tok_of_bool h.h_ra; string_of_n h.h_rcode ]

let questions_of_tok (s : string) : question list =
  if s = "_" then [] else List.map Vrr.question_of_tok (String.split_on_char ';' s)

let tok_of_questions (l : question list) : string =
  if l = [] then "_" else String.concat ";" (List.map Vrr.tok_of_question l)

let msg_of_tok (s : string) : message =
  match split_bar s with
  | [ h; qs; an; ns; ar ] ->
    { m_header = header_of_tok h; m_questions = questions_of_tok qs; m_answers = Vrr.rrs_of_tok an;
      m_authority = Vrr.rrs_of_tok ns; m_additional = Vrr.rrs_of_tok ar }
  | _ -> failwith "message token"

let tok_of_msg (m : message) : string =
  String.concat "|"
    [ tok_of_header m.m_header; tok_of_questions m.m_questions; Vrr.tok_of_rrs m.m_answers;
      Vrr.tok_of_rrs m.m_authority; Vrr.tok_of_rrs m.m_additional ]

(* sum of the recorded lengths (DomainName.len) of every name in the message:
   printed beside the token, which itself carries labels only *)
let rdata_lens (d : rdata) : int =
  let l (n : NameModel.dname) = int_of_n n.NameModel.nlen in
  match d with
  | RD_A _ | RD_Octets _ | RD_AAAA _ -> 0
  | RD_Name n -> l n
  | RD_SOA (m, r, _, _, _, _, _) -> l m + l r
  | RD_MINFO (r, e) -> l r + l e
  | RD_MX (_, e) -> l e
  | RD_SRV (_, _, _, t) -> l t

let msg_lens (m : message) : int =
  let rr acc (r : rr) = acc + int_of_n r.rr_name.NameModel.nlen + rdata_lens r.rr_data in
  let s = List.fold_left (fun acc (q : question) -> acc + int_of_n q.q_name.NameModel.nlen) 0 m.m_questions in
  List.fold_left rr (List.fold_left rr (List.fold_left rr s m.m_answers) m.m_authority) m.m_additional

(* ---- linear-time hex ---- *)
let hexdigits = "0123456789abcdef"

let fast_hex_of_bytes (l : coq_N list) : string =
  if l = [] then "-"
  else begin
    let b = Buffer.create 4096 in
    List.iter (fun x -> let i = int_of_n x in
                Buffer.add_char b hexdigits.[(i lsr 4) land 15];
                Buffer.add_char b hexdigits.[i land 15]) l;
    Buffer.contents b
  end

(* the 256 byte values, shared (no allocation per octet) *)
let byte_table : coq_N array = Array.init 256 n_of_int

let fast_bytes_of_hex (s : string) : coq_N list =
  if s = "-" then []
  else begin
    let n = String.length s / 2 in
    let acc = ref [] in
    for i = n - 1 downto 0 do
      acc := byte_table.(16 * hexval s.[2 * i] + hexval s.[2 * i + 1]) :: !acc
    done;
    !acc
  end

(* FNV-1a, 32 bit, over the octets *)
let fnv32 (l : coq_N list) : int =
  List.fold_left (fun h x -> ((h lxor (int_of_n x)) * 16777619) land 0xFFFFFFFF) 2166136261 l
