let () = Vmain.run [ ("server", Drv_server.handle) ]
